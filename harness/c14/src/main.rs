//! C14: building and scanning are thread-safe.
//!
//! Static part: this crate only compiles if `scnr::Scanner: Send + Sync` (the `./check` driver
//! turns a compile error about Send/Sync into the violation). Dynamic part: generated thread
//! programs run on real threads with schedule perturbation taken from the choice stream; every
//! observation must equal the observation of the same operation executed sequentially.

use scnr::ScannerModeSwitcher;
use serde_json::{json, Value};
use std::sync::atomic::{AtomicU64, Ordering};
use std::sync::{Arc, Barrier};
use vh::case::*;
use vh::dec::Dec;
use vh::gen::{self, GenParams};
use vh::model::Tok;
use vh::run::{self, guard, CaseStats, Check, CheckResult, Failure, RunConfig};
use vh::rx::Rx;

fn assert_send_sync<T: Send + Sync>() {}

#[allow(dead_code)]
fn static_part() {
    assert_send_sync::<scnr::Scanner>();
}

static NONCE: AtomicU64 = AtomicU64::new(1);

struct C14;

#[derive(Debug, Clone, PartialEq)]
enum Obs {
    Built(bool, Vec<Tok>),
    Scanned(Vec<Tok>, usize),
}

#[derive(Debug, Clone)]
enum TOp {
    /// build pool[k] through the cache, then scan probe input `inp` with the result
    Build { k: usize, inp: usize },
    /// scan input `inp` on the shared scanner, at most `limit` tokens, reporting current_mode
    ScanShared { inp: usize, limit: usize },
    /// build_uncached pool[k] privately and scan
    ScanPrivate { k: usize, inp: usize },
}

fn top_json(o: &TOp, spin: usize) -> Value {
    match o {
        TOp::Build { k, inp } => json!({"op": "build", "k": k, "inp": inp, "spin": spin}),
        TOp::ScanShared { inp, limit } => json!({"op": "scan_shared", "inp": inp, "limit": limit, "spin": spin}),
        TOp::ScanPrivate { k, inp } => json!({"op": "scan_private", "k": k, "inp": inp, "spin": spin}),
    }
}

fn top_of(v: &Value) -> Option<(TOp, usize)> {
    let n = |k: &str| v[k].as_u64().map(|x| x as usize);
    let spin = n("spin").unwrap_or(0);
    Some((
        match v["op"].as_str()? {
            "build" => TOp::Build { k: n("k")?, inp: n("inp")? },
            "scan_shared" => TOp::ScanShared { inp: n("inp")?, limit: n("limit")? },
            "scan_private" => TOp::ScanPrivate { k: n("k")?, inp: n("inp")? },
            _ => return None,
        },
        spin,
    ))
}

fn pool_of(case: &Case) -> Option<Vec<Vec<ModeSpec>>> {
    let mut out = Vec::new();
    for e in case.extra["pool"].as_array()? {
        let mut modes = Vec::new();
        for m in e.as_array()? {
            modes.push(ModeSpec::from_json(m).ok()?);
        }
        out.push(modes);
    }
    Some(out)
}

fn named(modes: &[ModeSpec], nonce: u64) -> Vec<scnr::ScannerMode> {
    modes
        .iter()
        .map(|m| {
            ModeSpec {
                name: format!("{}#{}", m.name, nonce),
                ..m.clone()
            }
            .to_scnr()
        })
        .collect()
}

fn scan(s: &scnr::Scanner, input: &str, limit: usize) -> (Vec<Tok>, usize) {
    let mut it = s.find_iter(input);
    let mut v = Vec::new();
    while v.len() < limit {
        match it.next() {
            Some(m) => v.push(Tok::of(&m)),
            None => break,
        }
    }
    (v, it.current_mode())
}

fn exec(op: &TOp, pool: &[Vec<scnr::ScannerMode>], inputs: &[String], shared: &scnr::Scanner) -> Obs {
    match op {
        TOp::Build { k, inp } => match scnr::ScannerBuilder::new().add_scanner_modes(&pool[*k]).build() {
            Ok(s) => Obs::Built(true, scan(&s, &inputs[*inp], usize::MAX).0),
            Err(_) => Obs::Built(false, vec![]),
        },
        TOp::ScanShared { inp, limit } => {
            let (v, m) = scan(shared, &inputs[*inp], *limit);
            Obs::Scanned(v, m)
        }
        TOp::ScanPrivate { k, inp } => {
            match scnr::ScannerBuilder::new().add_scanner_modes(&pool[*k]).build_uncached() {
                Ok(s) => {
                    let (v, m) = scan(&s, &inputs[*inp], usize::MAX);
                    Obs::Scanned(v, m)
                }
                Err(_) => Obs::Built(false, vec![]),
            }
        }
    }
}

/// Sequential expectation: the same operation on scanners built without the cache.
fn expect(op: &TOp, pool: &[Vec<scnr::ScannerMode>], inputs: &[String], shared: &scnr::Scanner) -> Obs {
    match op {
        TOp::Build { k, inp } => match scnr::ScannerBuilder::new().add_scanner_modes(&pool[*k]).build_uncached() {
            Ok(s) => Obs::Built(true, scan(&s, &inputs[*inp], usize::MAX).0),
            Err(_) => Obs::Built(false, vec![]),
        },
        other => exec(other, pool, inputs, shared),
    }
}

/// Fixed cases take this lock: the storm exclusively (a successful build of anybody else would wake
/// threads that a lost wakeup left sleeping and hide it), churn and hammer shared.
static QUIET: std::sync::RwLock<()> = std::sync::RwLock::new(());

/// All threads build the SAME configuration at the same moment, round after round with fresh
/// names: configurations that fail late (a large valid mode first, a broken pattern or lookahead
/// in a later mode), fail at once, or are valid but slow to compile. Every call must return what the
/// sequential build returns, within the deadline.
fn storm(case: &Case) -> CheckResult {
    let _quiet = QUIET.write().unwrap_or_else(|e| e.into_inner());
    let threads = case.extra["threads"].as_u64().unwrap_or(6).clamp(2, 64) as usize;
    let rounds = case.extra["rounds"].as_u64().unwrap_or(20).clamp(1, 1000) as usize;
    let deadline_s = case.extra["deadline_s"].as_u64().unwrap_or(20).clamp(1, 600);
    let big = |name: String, k: usize| {
        let mut pats: Vec<scnr::Pattern> = (0..30 + k % 7)
            .map(|i| scnr::Pattern::new(format!("kw{:03}[a-f]{{2,4}}", i), i + 2))
            .collect();
        pats.push(scnr::Pattern::new("[a-z_][a-z0-9_]*".to_string(), 0));
        pats.push(scnr::Pattern::new("b".to_string(), 1).with_lookahead(scnr::Lookahead::new(k % 2 == 0, "c+".to_string())));
        scnr::ScannerMode::new(&name, pats, vec![(0, 0)])
    };
    let probe = "kw003abc bc b kw017ffff x";
    let mut st = CaseStats::default();
    for r in 0..rounds {
        let nonce = NONCE.fetch_add(1, Ordering::Relaxed);
        let kind = r % 4;
        let mut modes = vec![big(format!("STORM{}_A", nonce), r)];
        match kind {
            0 => modes.push(scnr::ScannerMode::new(&format!("STORM{}_B", nonce), vec![scnr::Pattern::new("(unclosed".to_string(), 1)], vec![])),
            1 => modes.push(scnr::ScannerMode::new(
                &format!("STORM{}_B", nonce),
                vec![scnr::Pattern::new("x".to_string(), 1).with_lookahead(scnr::Lookahead::new(true, "^a".to_string()))],
                vec![],
            )),
            2 => modes.insert(0, scnr::ScannerMode::new(&format!("STORM{}_0", nonce), vec![scnr::Pattern::new("a\\b".to_string(), 1)], vec![])),
            _ => modes.push(big(format!("STORM{}_B", nonce), r + 1)),
        }
        let sequential = match guard(|| scnr::ScannerBuilder::new().add_scanner_modes(&modes).build_uncached().map(|s| scan(&s, probe, usize::MAX).0)) {
            Ok(r) => r.map_err(|e| e.to_string()),
            Err(p) => return Err(Failure::panic("c14.panic", "sequential build panicked", p)),
        };
        let modes = Arc::new(modes);
        let barrier = Arc::new(Barrier::new(threads));
        let (tx, rx) = std::sync::mpsc::channel::<(usize, Result<Result<Vec<Tok>, String>, String>)>();
        for t in 0..threads {
            let (modes, barrier, tx) = (modes.clone(), barrier.clone(), tx.clone());
            std::thread::spawn(move || {
                run::install_panic_hook();
                barrier.wait();
                let r = guard(|| {
                    scnr::ScannerBuilder::new()
                        .add_scanner_modes(&modes)
                        .build()
                        .map(|s| scan(&s, probe, usize::MAX).0)
                        .map_err(|e| e.to_string())
                });
                let _ = tx.send((t, r));
            });
        }
        drop(tx);
        let until = std::time::Instant::now() + std::time::Duration::from_secs(deadline_s);
        let mut returned = Vec::new();
        while returned.len() < threads {
            let left = until.saturating_duration_since(std::time::Instant::now());
            match rx.recv_timeout(left) {
                Ok((t, res)) => {
                    match res {
                        Err(p) => return Err(Failure::panic("c14.panic", format!("storm round (kind {}): build() panicked in thread {}", kind, t), p)),
                        Ok(got) => {
                            if got.is_ok() != sequential.is_ok() || (got.is_ok() && got != sequential) {
                                return Err(Failure::new(
                                    "c14.storm",
                                    format!("storm round {} (kind {}): {} threads build the same configuration at once; thread {} observed something else than the sequential build", r, kind, threads, t),
                                )
                                .exp_obs(&sequential, &got));
                            }
                        }
                    }
                    returned.push(t);
                }
                Err(_) => {
                    returned.sort();
                    return Err(Failure::new(
                        "c14.deadlock",
                        format!(
                            "storm round {} (kind {}: {}): {} threads build the same configuration at once; only the threads {:?} returned from build() within {} s",
                            r,
                            kind,
                            if sequential.is_ok() { "valid" } else { "failing" },
                            threads,
                            returned,
                            deadline_s
                        ),
                    ));
                }
            }
        }
        if sequential.is_err() {
            st.count("storm_rounds_failing_configuration");
        } else {
            st.count("storm_rounds_valid_configuration");
        }
    }
    st.nontrivial = true;
    st.count("storm_cases");
    Ok(st)
}

fn hammer(case: &Case) -> CheckResult {
    let _quiet = QUIET.read().unwrap_or_else(|e| e.into_inner());
    let threads = case.extra["threads"].as_u64().unwrap_or(8).clamp(2, 64) as usize;
    let rounds = case.extra["rounds"].as_u64().unwrap_or(10).clamp(1, 1000) as usize;
    let modes = vec![scnr::ScannerMode::new(
        "H",
        vec![
            scnr::Pattern::new("[\\u{E0}-\\u{FF}]+".to_string(), 0),
            scnr::Pattern::new("[a-z]+".to_string(), 1),
            scnr::Pattern::new("[\\u{400}-\\u{4FF}]+".to_string(), 2),
            scnr::Pattern::new("\\s+".to_string(), 3),
            scnr::Pattern::new("\\pL".to_string(), 4),
            scnr::Pattern::new("[^\\x00-\\x7F]".to_string(), 5),
        ],
        vec![],
    )];
    // pairs of characters whose code points coincide modulo a power of two
    let families: Vec<String> = vec![
        "\u{E9}\u{4E9}".into(),
        "\u{E9}\u{1E9}".into(),
        "a\u{461}".into(),
        "\u{E9}\u{100E9}".into(),
        "\u{1000E9}\u{E9}".into(),
        "\u{E9}\u{129}\u{10E9} ".into(),
        "\u{4E9}\u{E9} \u{8E9}".into(),
        "x\u{E0}\u{420}\u{10420}".into(),
    ];
    let inputs: Arc<Vec<String>> = Arc::new(families.iter().map(|f| f.repeat(3000)).collect());
    let shared = match guard(|| scnr::ScannerBuilder::new().add_scanner_modes(&modes).build()) {
        Ok(Ok(s)) => Arc::new(s),
        Ok(Err(e)) => return Err(Failure::new("c14.hammer_setup", format!("configuration does not build: {}", e))),
        Err(p) => return Err(Failure::panic("c14.panic", "building panicked", p)),
    };
    let expected: Vec<Vec<Tok>> = match guard(|| {
        let fresh = scnr::ScannerBuilder::new().add_scanner_modes(&modes).build_uncached().unwrap();
        inputs.iter().map(|i| scan(&fresh, i, usize::MAX).0).collect()
    }) {
        Ok(e) => e,
        Err(p) => return Err(Failure::panic("c14.panic", "sequential scan panicked", p)),
    };
    let expected = Arc::new(expected);
    let barrier = Arc::new(Barrier::new(threads));
    let mut handles = Vec::new();
    for t in 0..threads {
        let (inputs, shared, expected, barrier) = (inputs.clone(), shared.clone(), expected.clone(), barrier.clone());
        handles.push(std::thread::spawn(move || -> Result<u64, String> {
            run::install_panic_hook();
            barrier.wait();
            let mut n = 0;
            for r in 0..rounds {
                let k = (t + r) % inputs.len();
                match guard(|| scan(&shared, &inputs[k], usize::MAX).0) {
                    Err(p) => return Err(format!("scan panicked: {}", p)),
                    Ok(toks) => {
                        if toks != expected[k] {
                            let at = toks.iter().zip(expected[k].iter()).position(|(a, b)| a != b).unwrap_or(toks.len().min(expected[k].len()));
                            return Err(format!(
                                "thread {} round {}: tokens differ from the sequential scan at token {}: {:?} instead of {:?}",
                                t, r, at, toks.get(at), expected[k].get(at)
                            ));
                        }
                        n += toks.len() as u64;
                    }
                }
            }
            Ok(n)
        }));
    }
    let mut st = CaseStats::default();
    let mut failure = None;
    for h in handles {
        match h.join() {
            Ok(Ok(n)) => st.add("hammer_tokens", n),
            Ok(Err(e)) => failure = failure.or(Some(e)),
            Err(_) => failure = failure.or(Some("a thread died".to_string())),
        }
    }
    if let Some(e) = failure {
        return Err(Failure::new("c14.hammer", format!("{} threads scanning one shared scanner over long inputs of colliding characters: {}", threads, e)));
    }
    st.count("hammer_cases");
    st.nontrivial = true;
    Ok(st)
}

fn churn(case: &Case) -> CheckResult {
    use std::sync::atomic::AtomicBool;
    let _quiet = QUIET.read().unwrap_or_else(|e| e.into_inner());
    let n = |k: &str, d: usize| case.extra[k].as_u64().map(|x| x as usize).unwrap_or(d);
    let (hit_threads, miss_threads, fresh, nfixed) = (
        n("hit_threads", 4).min(32),
        n("miss_threads", 4).min(32),
        n("fresh_per_thread", 1000).min(20_000),
        n("fixed_keys", 4).clamp(1, 64),
    );
    let mk = |name: String, j: usize| {
        vec![scnr::ScannerMode::new(
            &name,
            vec![
                scnr::Pattern::new(format!("a{{{}}}", 1 + j % 3), 1),
                scnr::Pattern::new("[a-c]+".to_string(), 2 + j),
                scnr::Pattern::new("b".to_string(), 0).with_lookahead(scnr::Lookahead::new(j % 2 == 0, "c".to_string())),
            ],
            vec![],
        )]
    };
    let probe = "aab bc abc a";
    let expect_for = |j: usize| -> Result<Vec<Tok>, Failure> {
        match guard(|| scnr::ScannerBuilder::new().add_scanner_modes(&mk("E".into(), j)).build_uncached()) {
            Ok(Ok(s)) => Ok(scan(&s, probe, usize::MAX).0),
            Ok(Err(e)) => Err(Failure::new("c14.churn_setup", format!("fixed configuration does not build: {}", e))),
            Err(p) => Err(Failure::panic("c14.panic", "sequential build panicked", p)),
        }
    };
    let expected: Vec<Vec<Tok>> = (0..nfixed.max(3)).map(expect_for).collect::<Result<_, _>>()?;
    let expected = Arc::new(expected);
    let nonce0 = NONCE.fetch_add((miss_threads * fresh + 1) as u64, Ordering::Relaxed);
    let done = Arc::new(AtomicBool::new(false));
    let mut handles = Vec::new();
    for t in 0..hit_threads {
        let (expected, done) = (expected.clone(), done.clone());
        handles.push(std::thread::spawn(move || -> Result<u64, String> {
            run::install_panic_hook();
            let mut count = 0u64;
            let mut j = t;
            while !done.load(Ordering::Relaxed) {
                j = (j + 1) % nfixed;
                let modes = mk(format!("FIXED{}", j), j);
                let r = guard(|| scnr::ScannerBuilder::new().add_scanner_modes(&modes).build().map(|s| scan(&s, probe, usize::MAX).0));
                match r {
                    Err(p) => return Err(format!("re-building long-lived key {} panicked: {}", j, p)),
                    Ok(Err(e)) => return Err(format!("re-building long-lived key {} failed: {}", j, e)),
                    Ok(Ok(toks)) => {
                        if toks != expected[j] {
                            return Err(format!("long-lived key {}: tokens {:?} instead of {:?}", j, toks, expected[j]));
                        }
                    }
                }
                count += 1;
            }
            Ok(count)
        }));
    }
    let mut miss_handles = Vec::new();
    for t in 0..miss_threads {
        let expected = expected.clone();
        miss_handles.push(std::thread::spawn(move || -> Result<u64, String> {
            run::install_panic_hook();
            for i in 0..fresh {
                let j = i % 3;
                let modes = mk(format!("FRESH{}_{}", nonce0 + (t * fresh + i) as u64, j), j);
                let r = guard(|| scnr::ScannerBuilder::new().add_scanner_modes(&modes).build().map(|s| scan(&s, probe, usize::MAX).0));
                match r {
                    Err(p) => return Err(format!("building a new key panicked: {}", p)),
                    Ok(Err(e)) => return Err(format!("building a new key failed: {}", e)),
                    Ok(Ok(toks)) => {
                        if toks != expected[j] {
                            return Err(format!("new key: tokens {:?} instead of {:?}", toks, expected[j]));
                        }
                    }
                }
            }
            Ok(fresh as u64)
        }));
    }
    let mut st = CaseStats::default();
    let mut failure: Option<String> = None;
    for h in miss_handles {
        match h.join() {
            Ok(Ok(c)) => st.add("churn_new_keys_built", c),
            Ok(Err(e)) => failure = failure.or(Some(e)),
            Err(_) => failure = failure.or(Some("a thread died".into())),
        }
    }
    done.store(true, Ordering::Relaxed);
    for h in handles {
        match h.join() {
            Ok(Ok(c)) => st.add("churn_long_lived_rebuilds", c),
            Ok(Err(e)) => failure = failure.or(Some(e)),
            Err(_) => failure = failure.or(Some("a thread died".into())),
        }
    }
    if let Some(e) = failure {
        return Err(Failure::new("c14.churn", format!("cache churn ({} threads re-building {} long-lived keys, {} threads inserting {} new keys each): {}", hit_threads, nfixed, miss_threads, fresh, e)));
    }
    st.nontrivial = true;
    st.count("churn_cases");
    Ok(st)
}

impl Check for C14 {
    fn id(&self) -> &'static str {
        "C14"
    }
    fn rule(&self) -> &'static str {
        "static: the check binary only compiles if scnr::Scanner: Send + Sync; dynamic case = pool of 2-4 configurations (near-identical variants and one failing configuration) with nonce'd mode names, 2-3 inputs, one shared Arc<Scanner>, 2-8 thread programs of build(k) through the shared cache (first build of a key is a miss, later ones hits, failing builds) | scan on the shared scanner (full or partial) | private build_uncached + scan, with per-operation spin/yield counts from the choice stream and a barrier-aligned start, repeated 20 times with fresh nonces; plus a fixed build-storm case (6 threads build the SAME configuration behind a barrier, 24 (thorough 200) rounds with fresh names: failing late in a second mode / in a lookahead, failing at once, valid but slow; every call must return the sequential result within 20 s, run while no other case builds), fixed cache-churn cases (6 threads re-building 8 long-lived keys in a tight loop while 6 threads insert 2 500 new keys each) and shared-scan hammer cases (8 threads, long inputs of characters coinciding modulo 2^6..2^20); oracle = every observation of every thread equals the observation of the same operation executed sequentially on uncached scanners; no panic (a poisoned cache lock shows as a panic of a later build), no-progress watchdog; non-trivial = repetition in which >= 2 threads build the same key (hit while another inserts) or >= 2 threads iterate the shared scanner"
    }
    fn assumptions(&self) -> Vec<String> {
        vec!["schedules are sampled on real threads, not enumerated; the thorough tier adds a ThreadSanitizer build and Miri with seeded preemptive schedules on small programs".into()]
    }
    fn cases(&self, thorough: bool) -> usize {
        if thorough {
            6_000
        } else {
            600
        }
    }
    fn hang_is_violation(&self) -> bool {
        true
    }
    fn nondeterministic(&self) -> bool {
        true
    }
    fn fixed_case_timeout_s(&self) -> u64 {
        // churn: ~5 s, under ThreadSanitizer ~1 min
        300
    }
    fn trace_pass_fixed(&self) -> bool {
        // lock usage inside log arguments only shows with trace logging on
        true
    }
    fn fail_fast_fixed(&self) -> bool {
        // after a deadlock inside the cache every further build of the process may hang: the failing
        // fixed case is reported at once instead of being shrunk
        true
    }
    fn fixed_cases(&self, thorough: bool) -> Vec<Case> {
        // cache churn: some threads re-build a few long-lived keys in a tight loop while others
        // insert thousands of new keys (a cache with a size limit / eviction, or a lookup split
        // into several lock acquisitions, only shows under this load)
        let n = if thorough { 6 } else { 2 };
        let mut v: Vec<Case> = (0..n)
            .map(|i| Case {
                extra: json!({"kind": "churn", "hit_threads": 6, "miss_threads": 6, "fresh_per_thread": 2500, "fixed_keys": 8, "round": i}),
                ..Case::default()
            })
            .collect();
        // long concurrent scans of one shared scanner over characters that coincide modulo
        // 2^6 ... 2^20 (anything memoised per character or per class behind the shared predicate
        // is hit with colliding keys from several threads at once)
        for i in 0..n {
            v.push(Case {
                extra: json!({"kind": "hammer", "threads": 8, "rounds": if thorough { 40 } else { 12 }, "round": i}),
                ..Case::default()
            });
        }
        // all threads build the same (failing / slow) configuration at the same moment
        v.push(Case {
            extra: json!({"kind": "storm", "threads": 6, "rounds": if thorough { 200 } else { 24 }, "deadline_s": 20}),
            ..Case::default()
        });
        v
    }
    fn generate(&self, d: &mut Dec, thorough: bool) -> Case {
        let p = GenParams {
            max_pats: 3,
            max_depth: 3,
            ..GenParams::for_tier(thorough)
        }
        .with_lookaheads(50)
        .with_modes(2);
        let base = gen::gen_modes(d, &p);
        let mut pool = vec![base.clone()];
        // near-identical variant: one token type changed
        let mut v = base.clone();
        let mut tt = v[0].pats[0].tt + 1;
        while v[0].pats.iter().any(|q| q.tt == tt) {
            tt += 1;
        }
        v[0].pats[0].tt = tt;
        pool.push(v);
        if d.bool() {
            pool.push(gen::gen_modes(d, &p));
        }
        // failing configuration
        let mut f = base.clone();
        f[0].pats[0].rx = Rx::Raw((*d.pick(&["a(", "\\b", "a*?"])).to_string());
        pool.push(f);
        let mut inputs = Vec::new();
        for modes in pool.iter().take(pool.len() - 1) {
            let c = Case { modes: modes.clone(), ..Case::default() };
            inputs.push(gen::gen_input(d, &c.model(), 24));
        }
        let nthreads = 2 + d.below(7);
        let mut threads = Vec::new();
        for _ in 0..nthreads {
            let nops = 1 + d.below(5);
            let mut ops = Vec::new();
            for _ in 0..nops {
                let spin = d.below(40);
                let op = match d.weighted(&[5, 4, 1]) {
                    0 => TOp::Build { k: d.below(pool.len()), inp: d.below(inputs.len()) },
                    1 => TOp::ScanShared { inp: d.below(inputs.len()), limit: if d.bool() { usize::MAX >> 1 } else { d.below(4) } },
                    _ => TOp::ScanPrivate { k: d.below(pool.len()), inp: d.below(inputs.len()) },
                };
                ops.push(top_json(&op, spin));
            }
            threads.push(Value::Array(ops));
        }
        Case {
            inputs,
            extra: json!({
                "pool": pool.iter().map(|m| m.iter().map(|x| x.to_json()).collect::<Vec<_>>()).collect::<Vec<_>>(),
                "threads": threads,
                "reps": 20,
            }),
            ..Case::default()
        }
    }
    fn extra_shrinks(&self, case: &Case) -> Vec<Case> {
        let mut out = Vec::new();
        if let Some(ts) = case.extra["threads"].as_array() {
            for i in (0..ts.len()).rev() {
                if ts.len() > 1 {
                    let mut t = ts.clone();
                    t.remove(i);
                    let mut c = case.clone();
                    c.extra["threads"] = Value::Array(t);
                    out.push(c);
                }
                if let Some(ops) = ts[i].as_array() {
                    for j in (0..ops.len()).rev() {
                        if ops.len() > 1 {
                            let mut o = ops.clone();
                            o.remove(j);
                            let mut t = ts.clone();
                            t[i] = Value::Array(o);
                            let mut c = case.clone();
                            c.extra["threads"] = Value::Array(t);
                            out.push(c);
                        }
                    }
                }
            }
        }
        out
    }
    fn check(&self, case: &Case) -> CheckResult {
        if case.extra["kind"].as_str() == Some("churn") {
            return churn(case);
        }
        if case.extra["kind"].as_str() == Some("hammer") {
            return hammer(case);
        }
        if case.extra["kind"].as_str() == Some("storm") {
            return storm(case);
        }
        let Some(pool) = pool_of(case) else {
            return Ok(CaseStats::default());
        };
        let Some(threads) = case.extra["threads"].as_array() else {
            return Ok(CaseStats::default());
        };
        let mut progs: Vec<Vec<(TOp, usize)>> = Vec::new();
        for t in threads {
            let mut ops = Vec::new();
            for o in t.as_array().cloned().unwrap_or_default() {
                match top_of(&o) {
                    Some((op, spin)) => {
                        let ok = match &op {
                            TOp::Build { k, inp } | TOp::ScanPrivate { k, inp } => *k < pool.len() && *inp < case.inputs.len(),
                            TOp::ScanShared { inp, .. } => *inp < case.inputs.len(),
                        };
                        if !ok {
                            return Ok(CaseStats::default());
                        }
                        ops.push((op, spin));
                    }
                    None => return Ok(CaseStats::default()),
                }
            }
            progs.push(ops);
        }
        if progs.is_empty() || pool.is_empty() || case.inputs.is_empty() {
            return Ok(CaseStats::default());
        }
        for modes in &pool {
            if modes.is_empty() || modes.iter().any(|m| m.pats.is_empty() || !m.transitions.windows(2).all(|w| w[0].0 < w[1].0) || m.transitions.iter().any(|t| t.1 >= modes.len())) {
                return Ok(CaseStats::default());
            }
        }
        let reps = case.extra["reps"].as_u64().unwrap_or(10) as usize;
        let mut st = CaseStats::default();
        let inputs = Arc::new(case.inputs.clone());
        for _rep in 0..reps {
            let nonce = NONCE.fetch_add(1, Ordering::Relaxed);
            let npool: Arc<Vec<Vec<scnr::ScannerMode>>> = Arc::new(pool.iter().map(|m| named(m, nonce)).collect());
            // the shared scanner (pool[0]); if it does not build the case is outside the domain
            let shared = match guard(|| scnr::ScannerBuilder::new().add_scanner_modes(&npool[0]).build_uncached()) {
                Ok(Ok(s)) => Arc::new(s),
                Ok(Err(_)) => {
                    st.count("build_failed");
                    st.inconclusive = true;
                    return Ok(st);
                }
                Err(p) => return Err(Failure::panic("c14.panic", "building the shared scanner panicked", p)),
            };
            // sequential expectation
            let expected: Vec<Vec<Obs>> = match guard(|| {
                progs
                    .iter()
                    .map(|ops| ops.iter().map(|(op, _)| expect(op, &npool, &inputs, &shared)).collect())
                    .collect()
            }) {
                Ok(e) => e,
                Err(_) => {
                    // sequential execution itself panics: not a concurrency matter (C07/C15)
                    st.count("sequential_panic");
                    st.inconclusive = true;
                    return Ok(st);
                }
            };
            let barrier = Arc::new(Barrier::new(progs.len()));
            let mut handles = Vec::new();
            for ops in progs.iter().cloned() {
                let (npool, inputs, shared, barrier) = (npool.clone(), inputs.clone(), shared.clone(), barrier.clone());
                handles.push(std::thread::spawn(move || {
                    run::install_panic_hook();
                    barrier.wait();
                    let mut out = Vec::new();
                    for (op, spin) in &ops {
                        for i in 0..*spin {
                            if i % 8 == 7 {
                                std::thread::yield_now();
                            } else {
                                std::hint::spin_loop();
                            }
                        }
                        out.push(guard(|| exec(op, &npool, &inputs, &shared)));
                    }
                    out
                }));
            }
            let mut same_key_builders = std::collections::HashMap::new();
            let mut shared_scanners = 0;
            for ops in &progs {
                let mut keys = std::collections::HashSet::new();
                let mut sh = false;
                for (op, _) in ops {
                    match op {
                        TOp::Build { k, .. } => {
                            keys.insert(*k);
                        }
                        TOp::ScanShared { .. } => sh = true,
                        _ => {}
                    }
                }
                for k in keys {
                    *same_key_builders.entry(k).or_insert(0) += 1;
                }
                if sh {
                    shared_scanners += 1;
                }
            }
            let contended = same_key_builders.values().any(|n| *n >= 2);
            st.flag("reps_with_contended_cache_key", contended);
            st.flag("reps_with_shared_scanner_users", shared_scanners >= 2);
            if contended || shared_scanners >= 2 {
                st.nontrivial = true;
            }
            for (ti, h) in handles.into_iter().enumerate() {
                let got = match h.join() {
                    Ok(g) => g,
                    Err(_) => return Err(Failure::new("c14.panic", format!("thread {} died", ti))),
                };
                for (oi, (g, e)) in got.into_iter().zip(expected[ti].iter()).enumerate() {
                    match g {
                        Err(p) => {
                            return Err(Failure::panic(
                                "c14.panic",
                                format!("thread {} operation {} ({:?}) panicked", ti, oi, progs[ti][oi].0),
                                p,
                            ))
                        }
                        Ok(g) => {
                            if &g != e {
                                return Err(Failure::new(
                                    "c14.result",
                                    format!(
                                        "thread {} operation {} ({:?}) observed something else than the same call made sequentially",
                                        ti, oi, progs[ti][oi].0
                                    ),
                                )
                                .exp_obs(e, g));
                            }
                        }
                    }
                    st.count("operations");
                }
            }
            st.count("repetitions");
        }
        Ok(st)
    }
}

/// Fixed small thread programs for Miri (no proptest, no file system): a cache hit, two misses, a
/// failing build and a shared scanner on three threads.
fn miri_programs() -> i32 {
    let mk = |p: &str, tt: usize, name: &str| {
        vec![scnr::ScannerMode::new(
            name,
            vec![scnr::Pattern::new(p.to_string(), tt), scnr::Pattern::new("b".to_string(), tt + 1)],
            vec![],
        )]
    };
    let pool: Arc<Vec<Vec<scnr::ScannerMode>>> = Arc::new(vec![
        mk("a+", 0, "M"),
        mk("a+", 5, "M"),
        mk("a(", 0, "M"),
    ]);
    let inputs = Arc::new(vec!["aab".to_string(), "ba".to_string()]);
    let shared = Arc::new(
        scnr::ScannerBuilder::new()
            .add_scanner_modes(&pool[0])
            .build_uncached()
            .unwrap(),
    );
    let progs: Vec<Vec<TOp>> = vec![
        vec![TOp::Build { k: 0, inp: 0 }, TOp::ScanShared { inp: 0, limit: 9 }, TOp::Build { k: 2, inp: 0 }],
        vec![TOp::Build { k: 1, inp: 1 }, TOp::Build { k: 0, inp: 1 }, TOp::ScanShared { inp: 1, limit: 1 }],
        vec![TOp::Build { k: 2, inp: 0 }, TOp::Build { k: 1, inp: 0 }, TOp::ScanShared { inp: 0, limit: 9 }],
    ];
    let expected: Vec<Vec<Obs>> = progs
        .iter()
        .map(|ops| ops.iter().map(|op| expect(op, &pool, &inputs, &shared)).collect())
        .collect();
    let mut handles = Vec::new();
    for ops in progs.iter().cloned() {
        let (pool, inputs, shared) = (pool.clone(), inputs.clone(), shared.clone());
        handles.push(std::thread::spawn(move || {
            ops.iter().map(|op| exec(op, &pool, &inputs, &shared)).collect::<Vec<_>>()
        }));
    }
    for (ti, h) in handles.into_iter().enumerate() {
        let got = h.join().expect("thread panicked");
        if got != expected[ti] {
            println!("VIOLATION property=C14 replay=miri-thread-{}: {:?} vs {:?}", ti, got, expected[ti]);
            return 1;
        }
    }
    0
}

fn main() {
    let args: Vec<String> = std::env::args().collect();
    let seed: u64 = std::env::var("VERIF_SEED").ok().and_then(|s| s.parse().ok()).unwrap_or(1);
    let scale: f64 = std::env::var("VERIF_SCALE").ok().and_then(|s| s.parse().ok()).unwrap_or(1.0);
    let threads: usize = std::env::var("VERIF_THREADS").ok().and_then(|s| s.parse().ok()).unwrap_or(4);
    if args.len() >= 2 && args[1] == "miri" {
        std::process::exit(miri_programs());
    }
    if args.len() >= 3 && args[1] == "--replay" {
        std::process::exit(run::replay_file(&C14, std::path::Path::new(&args[2])));
    }
    let mut tier = args.get(1).cloned().unwrap_or_else(|| "quick".into());
    if let Ok(t) = std::env::var("VERIF_TIER") {
        if t == "quick" || t == "thorough" {
            tier = t;
        }
    }
    let cfg = RunConfig {
        thorough: tier == "thorough",
        seed,
        threads,
        scale,
    };
    std::process::exit(run::run_property(&C14, &cfg));
}
