#![no_main]
//! Coverage-guided driver: the bytes are the choice stream of the same generator the proptest
//! runner uses; the property (VERIF_FUZZ_PROP) selects generator and oracle. A failing case aborts
//! the process so that libFuzzer saves the input; `vh <Cnn> --fuzz-artifact <file>` then decodes,
//! shrinks and reports it.
use libfuzzer_sys::fuzz_target;
use std::sync::OnceLock;
use vh::dec::Dec;
use vh::run::{guard, Check};

static CHECK: OnceLock<Box<dyn Check>> = OnceLock::new();

fuzz_target!(|data: &[u8]| {
    let check = CHECK.get_or_init(|| {
        let id = std::env::var("VERIF_FUZZ_PROP").unwrap_or_else(|_| "C07".to_string());
        std::env::set_var("VERIF_GEN_NO_NAMED", "1");
        vh::run::install_panic_hook();
        vh::checks::by_id(&id).expect("unknown property")
    });
    if data.len() > 4096 {
        return;
    }
    let mut d = Dec::new(data);
    let case = check.generate(&mut d, false);
    match guard(|| check.check(&case)) {
        Ok(Ok(_)) => {}
        Ok(Err(f)) => {
            eprintln!("FUZZ-FAILURE property={} kind={} what={}", check.id(), f.kind, f.what);
            std::process::abort();
        }
        Err(p) => {
            eprintln!("FUZZ-HARNESS-PANIC {}", p);
            std::process::abort();
        }
    }
});
