//! Oracle self-test: the reference matcher must agree with the `regex` crate on generated
//! (expression, string) pairs restricted to constructs on which `regex` and the property
//! statements agree; the printer must round-trip. Disagreement = harness bug (exit 2).

use crate::dec::Dec;
use crate::gen::{self, GenParams};
use crate::model;
use crate::rx;

pub fn run(seed: u64) -> i32 {
    let mut state = seed.wrapping_mul(0x9E3779B97F4A7C15) ^ 0xD1B54A32D192ED03;
    let mut next = move || {
        state ^= state << 13;
        state ^= state >> 7;
        state ^= state << 17;
        state
    };
    let p = GenParams {
        named_classes: false,
        unicode_named: false,
        ..GenParams::quick()
    };
    let mut checked = 0;
    for _ in 0..1500 {
        let bytes: Vec<u8> = (0..256).map(|_| (next() >> 24) as u8).collect();
        let mut d = Dec::new(&bytes);
        let r = gen::gen_pattern_rx(&mut d, &p);
        let src = match rx::printer_roundtrip(&r) {
            Ok(s) => s,
            Err(e) => {
                eprintln!("HARNESS ERROR (selftest): {}", e);
                return 2;
            }
        };
        // `.` differs for \r between regex and the statement: skip expressions with a dot
        if src.contains('.') && has_dot(&r) {
            continue;
        }
        let Ok(re) = regex::Regex::new(&format!("^(?:{})$", src)) else {
            eprintln!("HARNESS ERROR (selftest): regex crate rejects {:?}", src);
            return 2;
        };
        let mut preds = model::Preds::default();
        let m = model::compile(&r, &mut preds);
        for _ in 0..4 {
            let mut w = String::new();
            let mut fuel = 10;
            gen::sample_word(&mut d, &m, &preds, &mut w, &mut fuel);
            if d.bool() {
                w.push(gen::gen_char(&mut d));
            }
            let chars: Vec<char> = w.chars().collect();
            let mine = model::ends(&m, &preds, &chars, 0).contains(chars.len());
            let theirs = re.is_match(&w);
            if mine != theirs {
                eprintln!(
                    "HARNESS ERROR (selftest): reference matcher says {} and regex says {} for {:?} on {:?}",
                    mine, theirs, src, w
                );
                return 2;
            }
            checked += 1;
        }
    }
    eprintln!("selftest: {} (expression, string) pairs agree with the regex crate", checked);
    0
}

fn has_dot(r: &rx::Rx) -> bool {
    match r {
        rx::Rx::Dot => true,
        rx::Rx::Class(_) => rx::print(r).contains('.'),
        rx::Rx::Concat(v) | rx::Rx::Alt(v) => v.iter().any(has_dot),
        rx::Rx::Repeat(i, ..) | rx::Rx::Group(i, _) => has_dot(i),
        _ => false,
    }
}
