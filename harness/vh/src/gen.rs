//! Generators: every case is decoded from a choice stream (dec.rs). No other source of randomness.

use crate::case::*;
use crate::dec::Dec;
use crate::model::{self, Model, Preds};
use crate::rx::*;
use crate::rx::parse_supported;

/// The mixed alphabet of DESIGN 3.5.
pub const ALPHABET: &[char] = &[
    'a', 'b', 'c', 'x', '0', '1', '_', ' ', '\n', '\r', '\t', '"', '\\', '.', '*', '(', '[', '-',
    '^', 'é', 'ß', 'Ω', '€', '中', '😀', '\u{85}', '\u{2028}',
];
/// The first few are the "simple" ones; literal choice is biased towards them so that patterns
/// overlap often.
const SIMPLE: usize = 7;

/// Characters that never occur in a generated pattern literal (but may be matched by classes).
pub const FOREIGN: &[char] = &['z', 'Q', '7', '#', 'ü', '\u{3042}', '\u{10348}', '\u{7f}', '\0'];

#[derive(Debug, Clone)]
pub struct GenParams {
    pub max_depth: usize,
    pub max_nodes: usize,
    pub max_pats: usize,
    pub max_modes: usize,
    /// permille of patterns that get a lookahead (0 = none)
    pub lookahead_per_256: usize,
    pub named_classes: bool,
    pub unicode_named: bool,
    pub big_token_types: bool,
    pub max_input_chars: usize,
    pub class_depth: usize,
    pub transitions: bool,
    /// lower bound for the number of modes (mode-graph checks want >= 2 most of the time)
    pub min_modes: usize,
    /// share (of 256) of cases drawn from the large-case generators
    pub large_per_256: usize,
}

impl GenParams {
    pub fn quick() -> Self {
        GenParams {
            max_depth: 4,
            max_nodes: 20,
            max_pats: 6,
            max_modes: 1,
            lookahead_per_256: 0,
            named_classes: true,
            unicode_named: true,
            big_token_types: true,
            max_input_chars: 24,
            class_depth: 2,
            transitions: false,
            min_modes: 1,
            large_per_256: 5,
        }
    }
    pub fn thorough() -> Self {
        GenParams {
            max_depth: 5,
            max_nodes: 28,
            max_input_chars: 64,
            class_depth: 3,
            ..Self::quick()
        }
    }
    pub fn for_tier(thorough: bool) -> Self {
        let mut p = if thorough {
            Self::thorough()
        } else {
            Self::quick()
        };
        // coverage-guided campaigns run under ASan in short-lived processes: measuring the base
        // sets of named classes (a scan of all scalar values each) would dominate them
        static NO_NAMED: std::sync::OnceLock<bool> = std::sync::OnceLock::new();
        if *NO_NAMED.get_or_init(|| std::env::var("VERIF_GEN_NO_NAMED").is_ok()) {
            p.named_classes = false;
            p.unicode_named = false;
        }
        p
    }
    pub fn with_lookaheads(mut self, per_256: usize) -> Self {
        self.lookahead_per_256 = per_256;
        self
    }
    pub fn with_modes(mut self, n: usize) -> Self {
        self.max_modes = n;
        self.transitions = n > 0;
        self
    }
}

/// Characters that coincide with an alphabet character when a code point is truncated to 8, 16
/// or 20 bits (lossy keys, `as u8`, packed tables).
pub fn alias_chars() -> &'static [char] {
    static A: std::sync::OnceLock<Vec<char>> = std::sync::OnceLock::new();
    A.get_or_init(|| {
        let mut v = Vec::new();
        for c in ['a', 'b', '0', ' ', '\n', 'é', 'Ω', '€', '中'] {
            for delta in [0x40u32, 0x100, 0x400, 0x1000, 0x10000, 0x100000] {
                if let Some(x) = char::from_u32(c as u32 + delta) {
                    v.push(x);
                }
            }
        }
        v
    })
}

/// Characters with a special role somewhere (byte order mark, zero width, soft hyphen, the edges
/// of the ASCII / Latin-1 / BMP ranges, noncharacters, replacement character).
pub const SPECIALS: &[char] = &[
    '\u{FEFF}', '\u{200B}', '\u{AD}', '\u{7F}', '\u{80}', '\u{A0}', '\u{FF}', '\u{100}', '\u{FFFD}',
    '\u{FFFE}', '\u{FFFF}', '\u{D7FF}', '\u{E000}', '\u{10000}', '\u{10FFFF}', '\u{1}', '\u{1B}',
];

pub fn gen_char(d: &mut Dec) -> char {
    if d.chance(3) {
        return *d.pick(alias_chars());
    }
    if d.chance(3) {
        return *d.pick(SPECIALS);
    }
    if d.chance(180) {
        ALPHABET[d.below(SIMPLE)]
    } else {
        *d.pick(ALPHABET)
    }
}

fn gen_form(d: &mut Dec, c: char) -> LitForm {
    match d.weighted(&[10, 2, 1, 1, 1, 1, 1, 2]) {
        0 => LitForm::Verbatim,
        1 => LitForm::Backslash,
        2 => LitForm::HexFixed,
        3 => LitForm::HexBrace,
        4 => LitForm::UShort,
        5 => LitForm::UBrace,
        6 => LitForm::ULong,
        _ => {
            if matches!(c, '\n' | '\t' | '\r') {
                LitForm::Special
            } else {
                LitForm::Verbatim
            }
        }
    }
}

pub fn gen_named(d: &mut Dec, p: &GenParams, in_class: bool) -> Named {
    let w_ascii = if in_class { 4 } else { 0 };
    let w_uni = if p.unicode_named { 2 } else { 0 };
    match d.weighted(&[6, w_ascii, w_uni, w_uni]) {
        0 => Named::Perl(*d.pick(&[PerlKind::Digit, PerlKind::Space, PerlKind::Word])),
        1 => Named::Ascii(d.below(ASCII_KINDS.len())),
        2 => Named::UnicodeLetter(*d.pick(&UNICODE_ONE_LETTER)),
        _ => Named::UnicodeName(d.pick(UNICODE_NAMED).to_string()),
    }
}

fn gen_range(d: &mut Dec) -> ClassItem {
    match d.weighted(&[6, 3, 2, 1, 1, 1]) {
        0 => {
            let a = d.below(4);
            let b = a + d.below(4);
            ClassItem::Range((b'a' + a as u8) as char, (b'a' + b as u8) as char)
        }
        1 => {
            let a = d.below(6);
            let b = a + d.below(4);
            ClassItem::Range((b'0' + a as u8) as char, (b'0' + b as u8) as char)
        }
        2 => {
            // single point or small range around an alphabet character
            let c = gen_char(d);
            let hi = char::from_u32(c as u32 + d.below(3) as u32).unwrap_or(c);
            ClassItem::Range(c, hi)
        }
        3 => ClassItem::Range('\u{D7F0}', '\u{E010}'), // crosses the surrogate gap
        4 => ClassItem::Range('\u{10FFF0}', '\u{10FFFF}'),
        _ => {
            let lo = *d.pick(&['\0', ' ', 'A', '\u{80}', '\u{7FF}', '\u{FFFF}']);
            let hi = *d.pick(&['\u{7F}', '\u{7FF}', '\u{800}', '\u{FFFF}', '\u{10000}', '\u{10FFFF}']);
            if lo <= hi {
                ClassItem::Range(lo, hi)
            } else {
                ClassItem::Range(hi, lo)
            }
        }
    }
}

fn gen_item(d: &mut Dec, p: &GenParams, depth: usize) -> ClassItem {
    let w_named = if p.named_classes { 3 } else { 0 };
    let w_nested = if depth > 0 { 2 } else { 0 };
    match d.weighted(&[8, 5, w_named, w_nested]) {
        0 => {
            if d.chance(8) {
                // an unescaped dot inside brackets: everything except \n and \r in scnr
                return ClassItem::Lit('.', LitForm::BareDot);
            }
            let c = gen_char(d);
            let f = gen_form(d, c);
            ClassItem::Lit(c, f)
        }
        1 => gen_range(d),
        2 => {
            let n = gen_named(d, p, true);
            ClassItem::Named(n, d.chance(64))
        }
        _ => ClassItem::Bracket(Box::new(gen_bracket(d, p, depth - 1))),
    }
}

/// A union of 8-24 literals and ranges, many of them overlapping or nested (`a-z` next to `e`,
/// `0-9` next to `3-5`): what identifier and number classes of real grammars look like.
fn gen_wide_union(d: &mut Dec) -> ClassSet {
    let n = 8 + d.below(17);
    let mut items = Vec::with_capacity(n);
    for _ in 0..n {
        items.push(match d.weighted(&[3, 4, 3, 2]) {
            0 => {
                let (lo, hi) = *d.pick(&[('a', 'z'), ('A', 'Z'), ('0', '9'), ('a', 'f'), ('A', 'F'), ('\u{80}', '\u{7FF}'), (' ', '~')]);
                ClassItem::Range(lo, hi)
            }
            1 => {
                let c = *d.pick(&['e', 'E', 'x', 'f', 'a', 'z', '_', '$', '-', '+', '0', '5', '9', 'é', 'b', 'c']);
                let f = gen_form(d, c);
                ClassItem::Lit(c, f)
            }
            2 => {
                let c = gen_char(d);
                let f = gen_form(d, c);
                ClassItem::Lit(c, f)
            }
            _ => gen_range(d),
        });
    }
    ClassSet::Items(items)
}

fn gen_items(d: &mut Dec, p: &GenParams, depth: usize) -> ClassSet {
    if d.chance(10) {
        return gen_wide_union(d);
    }
    let n = 1 + d.weighted(&[5, 4, 2]);
    ClassSet::Items((0..n).map(|_| gen_item(d, p, depth)).collect())
}

fn gen_operand(d: &mut Dec, p: &GenParams, depth: usize) -> ClassSet {
    // operands of set operators are bracketed (DESIGN 3.3)
    ClassSet::Items(vec![ClassItem::Bracket(Box::new(gen_bracket(
        d,
        p,
        depth.saturating_sub(1),
    )))])
}

pub fn gen_bracket(d: &mut Dec, p: &GenParams, depth: usize) -> Bracket {
    let negated = d.chance(56);
    let w_op = if depth > 0 { 3 } else { 0 };
    let set = match d.weighted(&[8, w_op]) {
        0 => gen_items(d, p, depth),
        _ => {
            let op = |d: &mut Dec| {
                *d.pick(&[SetOp::Intersection, SetOp::Difference, SetOp::SymDiff])
            };
            let l = gen_operand(d, p, depth);
            let o = op(d);
            // a missing right operand (`[[a-c]--]`) is the empty set
            let r = if d.chance(20) { ClassSet::Items(vec![]) } else { gen_operand(d, p, depth) };
            let mut s = ClassSet::BinOp(o, Box::new(l), Box::new(r));
            if d.chance(48) {
                // chained: left-associative
                let o2 = op(d);
                let r2 = gen_operand(d, p, depth);
                s = ClassSet::BinOp(o2, Box::new(s), Box::new(r2));
            }
            s
        }
    };
    Bracket { negated, set }
}

pub fn gen_class(d: &mut Dec, p: &GenParams) -> Class {
    let w_named = if p.named_classes { 3 } else { 0 };
    match d.weighted(&[6, w_named]) {
        0 => Class::Bracket(gen_bracket(d, p, p.class_depth)),
        _ => {
            let n = gen_named(d, p, false);
            Class::Named(n, d.chance(64))
        }
    }
}

fn gen_leaf(d: &mut Dec, p: &GenParams) -> Rx {
    match d.weighted(&[14, 2, 5, 1]) {
        0 => {
            let c = gen_char(d);
            let f = gen_form(d, c);
            Rx::Lit(c, f)
        }
        1 => Rx::Dot,
        2 => Rx::Class(gen_class(d, p)),
        _ => Rx::Empty,
    }
}

fn gen_repeat_bounds(d: &mut Dec) -> (u32, Option<u32>) {
    match d.weighted(&[4, 4, 4, 2, 2, 2]) {
        0 => (0, Some(1)),
        1 => (0, None),
        2 => (1, None),
        3 => {
            let m = d.below(4) as u32;
            (m, Some(m))
        }
        4 => (d.below(4) as u32, None),
        _ => {
            let m = d.below(4) as u32;
            (m, Some(m + d.below(4) as u32))
        }
    }
}

pub fn gen_rx(d: &mut Dec, p: &GenParams, depth: usize, budget: &mut usize) -> Rx {
    if depth == 0 || *budget <= 1 {
        *budget = budget.saturating_sub(1);
        return gen_leaf(d, p);
    }
    *budget -= 1;
    match d.weighted(&[6, 6, 4, 5, 2]) {
        0 => gen_leaf(d, p),
        1 => {
            let n = 2 + d.weighted(&[5, 3, 1]);
            Rx::Concat((0..n).map(|_| gen_rx(d, p, depth - 1, budget)).collect())
        }
        2 => {
            let n = 2 + d.weighted(&[5, 2]);
            Rx::Alt(
                (0..n)
                    .map(|_| {
                        if d.chance(40) {
                            Rx::Empty
                        } else {
                            gen_rx(d, p, depth - 1, budget)
                        }
                    })
                    .collect(),
            )
        }
        3 => {
            if d.chance(8) {
                // a long run of one character or class (an algorithm iterating once per position
                // may stop early at some bound); only leaves are repeated that often so that the
                // automaton stays small
                let inner = match d.below(3) {
                    0 => Rx::Class(gen_class(d, p)),
                    _ => {
                        let c = gen_char(d);
                        Rx::Lit(c, LitForm::Verbatim)
                    }
                };
                let n = *d.pick(&[17u32, 31, 32, 33, 34, 40, 63, 64, 65, 66, 70, 100, 128, 130]);
                return match d.below(3) {
                    0 => Rx::Repeat(Box::new(inner), n, Some(n)),
                    1 => Rx::Repeat(Box::new(inner), n, None),
                    _ => Rx::Repeat(Box::new(inner), n - 3, Some(n)),
                };
            }
            let inner = gen_rx(d, p, depth - 1, budget);
            let (a, b) = gen_repeat_bounds(d);
            Rx::Repeat(Box::new(inner), a, b)
        }
        _ => {
            let inner = gen_rx(d, p, depth - 1, budget);
            let k = *d.pick(&[GroupKind::Capture, GroupKind::NonCapture, GroupKind::Named]);
            Rx::Group(Box::new(inner), k)
        }
    }
}

/// Keyword-set shapes such as `x(ac|ad|be)|y(ac|bd|be)`: 1-3 heads, each followed by an
/// alternation of 2-4 words of 2-3 letters over tiny per-position alphabets; in half of the cases
/// every further head gets a NEAR TWIN of the first word set (one letter changed, or one word
/// dropped or doubled). The compiled automata get sibling states whose transitions agree under any
/// signature that is a little too coarse (class ignored, multiplicity ignored, grouping ignored).
pub fn gen_word_sets(d: &mut Dec) -> Rx {
    let lit = |c: char| Rx::Lit(c, LitForm::Verbatim);
    let alphabets: [&[char]; 5] = [&['a', 'b'], &['c', 'd', 'e'], &['a', 'c', 'x'], &['d', 'c'], &['b', 'c', 'x']];
    let heads = 1 + d.below(3);
    // 0: words of two letters; 1: two or three; 2: two to five (long shared prefixes, the
    // difference between siblings lies several states deep)
    let lengths = d.weighted(&[3, 2, 3]);
    let twins = d.bool();
    let gen_words = |d: &mut Dec| -> Vec<Vec<char>> {
        let n = 2 + d.below(3);
        (0..n)
            .map(|_| {
                let len = match lengths {
                    0 => 2,
                    1 => 2 + d.below(2),
                    _ => 2 + d.below(4),
                };
                (0..len).map(|j| if lengths == 2 && j >= 1 && j + 1 < len && d.chance(160) { 'd' } else { *d.pick(alphabets[j]) }).collect()
            })
            .collect()
    };
    let first = gen_words(d);
    let mut alts = Vec::new();
    for h in 0..heads {
        let words = if h == 0 {
            first.clone()
        } else if twins {
            let mut w = first.clone();
            match d.weighted(&[6, 1, 1]) {
                0 => {
                    let i = d.below(w.len());
                    let j = d.below(w[i].len());
                    w[i][j] = *d.pick(alphabets[j.min(4)]);
                }
                1 if w.len() > 1 => {
                    let i = d.below(w.len());
                    w.remove(i);
                }
                _ => {
                    let i = d.below(w.len());
                    let x = w[i].clone();
                    w.push(x);
                }
            }
            w
        } else {
            gen_words(d)
        };
        let body = Rx::Group(
            Box::new(Rx::Alt(
                words
                    .iter()
                    .map(|w| Rx::Concat(w.iter().map(|c| lit(*c)).collect()))
                    .collect(),
            )),
            GroupKind::NonCapture,
        );
        if heads == 1 && d.bool() {
            alts.push(body);
        } else {
            alts.push(Rx::Concat(vec![lit(['x', 'y', 'z'][h]), body]));
        }
    }
    if alts.len() == 1 {
        alts.pop().unwrap()
    } else {
        Rx::Alt(alts)
    }
}

pub fn gen_pattern_rx(d: &mut Dec, p: &GenParams) -> Rx {
    if d.chance(8) {
        return gen_word_sets(d);
    }
    let depth = 1 + d.below(p.max_depth);
    let mut budget = p.max_nodes;
    let mut rx = gen_rx(d, p, depth, &mut budget);
    crate::rx::cap_states(&mut rx, MAX_PATTERN_STATES);
    rx
}

/// Bound on the estimated NFA size of one generated pattern or lookahead (long runs of 130 copies
/// and counted repetitions around the powers of two up to 129 fit; their products do not).
pub const MAX_PATTERN_STATES: u64 = 1_500;

/// A lookahead expression that cannot match the empty string (domain rule 4): a nullable body is
/// concatenated with a literal.
pub fn gen_lookahead_rx(d: &mut Dec, p: &GenParams) -> Rx {
    let depth = d.below(3);
    let mut budget = 8;
    let mut r = gen_rx(d, p, depth, &mut budget);
    crate::rx::cap_states(&mut r, MAX_PATTERN_STATES);
    if nullable(&r) {
        let c = gen_char(d);
        if d.bool() {
            Rx::Concat(vec![r, Rx::Lit(c, LitForm::Verbatim)])
        } else {
            Rx::Concat(vec![Rx::Lit(c, LitForm::Verbatim), r])
        }
    } else {
        r
    }
}

pub fn gen_token_type(d: &mut Dec, p: &GenParams) -> usize {
    let w_big = if p.big_token_types { 1 } else { 0 };
    match d.weighted(&[40, w_big, w_big, 2]) {
        3 => *d.pick(&[31usize, 32, 63, 64, 65, 67, 127, 128, 129, 255, 256, 257, 1023, 1024, 65_535]),
        0 => d.below(10),
        1 => 65_536 + d.below(1 << 30),
        _ => (1usize << 32) + d.below(1 << 20),
    }
}

pub fn gen_mode(d: &mut Dec, p: &GenParams, name: &str) -> ModeSpec {
    let n = 1 + d.below(p.max_pats);
    let mut pats: Vec<PatSpec> = Vec::new();
    for _ in 0..n {
        let rx = gen_pattern_rx(d, p);
        let mut tt = gen_token_type(d, p);
        if !pats.is_empty() && d.chance(14) {
            // a token type that coincides with an earlier one of this mode when truncated to 8, 16,
            // 31, 32 bits or taken modulo 64 (narrow integer keys, bit masks)
            let base = pats[d.below(pats.len())].tt;
            let deltas: &[usize] = if p.big_token_types {
                &[64, 128, 256, 1 << 16, 1 << 31, 1 << 32, 1 << 32, 3 << 32, 1 << 33]
            } else {
                &[64, 128, 256, 1 << 16]
            };
            tt = base.wrapping_add(*d.pick(deltas));
        }
        while pats.iter().any(|q| q.tt == tt) {
            tt += 1;
        }
        let la = if p.lookahead_per_256 > 0 && d.chance(p.lookahead_per_256) {
            Some(LaSpec {
                positive: d.bool(),
                rx: gen_lookahead_rx(d, p),
            })
        } else {
            None
        };
        pats.push(PatSpec { rx, tt, la });
    }
    if pats.len() >= 2 && p.named_classes && d.chance(10) {
        // a named class and its opposite polarity as stand-alone atoms of two patterns of one
        // scanner (anything that identifies classes by name must tell them apart)
        let n = gen_named(d, p, false);
        let i = d.below(pats.len());
        let j = (i + 1 + d.below(pats.len() - 1)) % pats.len();
        let extra_lit = gen_char(d);
        let nested = d.chance(100);
        let atom = |neg: bool| {
            if nested {
                // ... or nested in otherwise identical brackets
                Rx::Class(Class::Bracket(Bracket {
                    negated: false,
                    set: ClassSet::Items(vec![ClassItem::Named(n.clone(), neg), ClassItem::Lit(extra_lit, LitForm::Verbatim)]),
                }))
            } else {
                Rx::Class(Class::Named(n.clone(), neg))
            }
        };
        pats[i].rx = if d.bool() { atom(false) } else { Rx::Concat(vec![atom(false), pats[i].rx.clone()]) };
        pats[j].rx = if d.bool() { atom(true) } else { Rx::Concat(vec![atom(true), pats[j].rx.clone()]) };
    }
    if pats.len() >= 2 && d.chance(5) {
        // two classes whose source texts are related by escaping: `[\n]` (line feed) and `[\\n]`
        // (backslash or n), `[^\t]` and `[^\\t]`
        let (c, letter) = *d.pick(&[('\n', 'n'), ('\t', 't'), ('\r', 'r')]);
        let negated = d.chance(64);
        let plain = Rx::Class(Class::Bracket(Bracket {
            negated,
            set: ClassSet::Items(vec![ClassItem::Lit(c, LitForm::Special)]),
        }));
        let doubled = Rx::Class(Class::Bracket(Bracket {
            negated,
            set: ClassSet::Items(vec![ClassItem::Lit('\\', LitForm::Backslash), ClassItem::Lit(letter, LitForm::Verbatim)]),
        }));
        let i = d.below(pats.len());
        let j = (i + 1 + d.below(pats.len() - 1)) % pats.len();
        let rep = |r: Rx, d: &mut Dec| if d.bool() { Rx::Repeat(Box::new(r), 1, None) } else { r };
        pats[i].rx = rep(plain, d);
        pats[j].rx = rep(doubled, d);
    }
    if pats.len() >= 2 && d.chance(5) {
        // one character as the only item of a bracket and as an escaped literal outside brackets,
        // in two patterns of one scanner; for the dot the two differ (`[.]` is everything except
        // \n and \r in scnr, `\.` the dot itself), for the others they must be one language
        let c = *d.pick(&['.', '.', '.', '+', '*', '-', '$', 'a']);
        let in_form = if c == '.' && d.chance(200) { LitForm::BareDot } else { LitForm::Verbatim };
        let out_form = d.pick(&[LitForm::Backslash, LitForm::HexFixed, LitForm::UBrace]).clone();
        let bracket = Rx::Class(Class::Bracket(Bracket {
            negated: false,
            set: ClassSet::Items(vec![ClassItem::Lit(c, in_form)]),
        }));
        let lit = Rx::Lit(c, out_form);
        let i = d.below(pats.len());
        let j = (i + 1 + d.below(pats.len() - 1)) % pats.len();
        let rep = |r: Rx, d: &mut Dec| if d.bool() { Rx::Repeat(Box::new(r), 1, None) } else { r };
        pats[i].rx = rep(bracket, d);
        pats[j].rx = rep(lit, d);
    }
    if pats.len() >= 2 && d.chance(12) {
        // two patterns with the same expression (different token types, perhaps a lookahead)
        let i = d.below(pats.len());
        let j = (i + 1 + d.below(pats.len() - 1)) % pats.len();
        pats[j].rx = pats[i].rx.clone();
    }
    ModeSpec {
        name: name.to_string(),
        pats,
        transitions: vec![],
    }
}

pub const MODE_NAMES: [&str; 6] = ["INITIAL", "M1", "M2", "M3", "M4", "M5"];

pub fn gen_modes(d: &mut Dec, p: &GenParams) -> Vec<ModeSpec> {
    let lo = p.min_modes.clamp(1, p.max_modes.max(1));
    let n = lo + d.below(p.max_modes.max(1) - lo + 1);
    let mut modes: Vec<ModeSpec> = (0..n).map(|i| gen_mode(d, p, MODE_NAMES[i])).collect();
    if n >= 2 && d.chance(26) {
        // sibling modes: the same patterns and token types, differing only in lookaheads (anything
        // that shares compiled data between modes must keep them apart)
        let i = d.below(n);
        let j = (i + 1 + d.below(n - 1)) % n;
        modes[j].pats = modes[i].pats.clone();
        let np = modes[j].pats.len();
        match d.below(4) {
            0 => modes[j].pats.iter_mut().for_each(|q| q.la = None),
            1 => {
                let k = d.below(np);
                modes[j].pats[k].la = Some(LaSpec {
                    positive: d.bool(),
                    rx: gen_lookahead_rx(d, p),
                });
            }
            2 => {
                for q in modes[j].pats.iter_mut() {
                    if let Some(la) = q.la.as_mut() {
                        la.positive = !la.positive;
                    }
                }
            }
            _ => {
                let k = d.below(np);
                modes[i].pats[k].la = Some(LaSpec {
                    positive: d.bool(),
                    rx: gen_lookahead_rx(d, p),
                });
                modes[j].pats[k].la = None;
            }
        }
    }
    if n >= 2 && d.chance(8) {
        // the conventional name of the start mode on another mode (the start mode is mode 0,
        // whatever it is called)
        let j = 1 + d.below(n - 1);
        let first = modes[0].name.clone();
        modes[0].name = modes[j].name.clone();
        modes[j].name = first;
    }
    if n >= 2 && d.chance(8) {
        // mode names need not be distinct
        let i = d.below(n);
        let j = (i + 1) % n;
        modes[j].name = modes[i].name.clone();
    }
    if p.transitions {
        // the pool of token types any mode produces
        let mut pool: Vec<usize> = modes
            .iter()
            .flat_map(|m| m.pats.iter().map(|p| p.tt))
            .collect();
        pool.sort_unstable();
        pool.dedup();
        for mi in 0..n {
            let k = d.weighted(&[2, 4, 3, 2, 1]);
            let mut ts: Vec<(usize, usize)> = Vec::new();
            for _ in 0..k {
                let tt = match d.weighted(&[6, 3, 1]) {
                    0 => {
                        let own: Vec<usize> = modes[mi].pats.iter().map(|p| p.tt).collect();
                        *d.pick(&own)
                    }
                    1 => *d.pick(&pool),
                    _ => d.below(12), // possibly a token type nobody produces
                };
                if ts.iter().all(|(t, _)| *t != tt) {
                    ts.push((tt, d.below(n)));
                }
            }
            ts.sort_unstable();
            modes[mi].transitions = ts;
        }
    }
    modes
}

// --- words and inputs -----------------------------------------------------------------------

fn pick_matching(d: &mut Dec, preds: &Preds, id: usize) -> Option<char> {
    let start = d.below(ALPHABET.len() + FOREIGN.len());
    let total = ALPHABET.len() + FOREIGN.len();
    for k in 0..total {
        let i = (start + k) % total;
        let c = if i < ALPHABET.len() {
            ALPHABET[i]
        } else {
            FOREIGN[i - ALPHABET.len()]
        };
        if preds.matches(id, c) {
            return Some(c);
        }
    }
    // search a few more characters
    for c in ['A', 'Z', '9', '\u{0}', '\u{D7FF}', '\u{E000}', '\u{10FFFF}', '~', '\u{A0}'] {
        if preds.matches(id, c) {
            return Some(c);
        }
    }
    None
}

/// Appends a word of the language of `m` (or a near miss when a class has no handy member).
pub fn sample_word(d: &mut Dec, m: &model::M, preds: &Preds, out: &mut String, fuel: &mut usize) {
    if *fuel == 0 {
        return;
    }
    match m {
        model::M::Empty => {}
        model::M::Char(id) => {
            *fuel -= 1;
            if let Some(c) = pick_matching(d, preds, *id) {
                out.push(c);
            }
        }
        model::M::Concat(v) => {
            for x in v {
                sample_word(d, x, preds, out, fuel);
            }
        }
        model::M::Alt(v) => {
            let i = d.below(v.len());
            sample_word(d, &v[i], preds, out, fuel);
        }
        model::M::Repeat(inner, min, max) => {
            let hi = match max {
                Some(m) => (*m).min(*min + 2),
                None => *min + 2,
            };
            let n = *min as usize + d.below((hi - *min) as usize + 1);
            for _ in 0..n {
                sample_word(d, inner, preds, out, fuel);
            }
        }
    }
}

/// An input biased towards the languages of the configuration (DESIGN 3.5).
pub fn gen_input(d: &mut Dec, model: &Model, max_chars: usize) -> String {
    let mut s = String::new();
    let pieces = 1 + d.below(6);
    let all: Vec<&model::PatM> = model.modes.iter().flat_map(|m| m.pats.iter()).collect();
    for _ in 0..pieces {
        let mut w = String::new();
        let mut fuel = 12;
        match d.weighted(&[8, 2, 2, 3, 2, 2, 3]) {
            0 => {
                let p = *d.pick(&all);
                sample_word(d, &p.m, &model.preds, &mut w, &mut fuel);
            }
            1 => {
                // a proper prefix of a word
                let p = *d.pick(&all);
                sample_word(d, &p.m, &model.preds, &mut w, &mut fuel);
                let n = w.chars().count();
                if n > 0 {
                    let keep = d.below(n);
                    w = w.chars().take(keep).collect();
                }
            }
            2 => {
                // a word with one character changed
                let p = *d.pick(&all);
                sample_word(d, &p.m, &model.preds, &mut w, &mut fuel);
                let n = w.chars().count();
                if n > 0 {
                    let at = d.below(n);
                    let c = gen_char(d);
                    w = w
                        .chars()
                        .enumerate()
                        .map(|(i, x)| if i == at { c } else { x })
                        .collect();
                }
            }
            3 => {
                for _ in 0..1 + d.below(3) {
                    w.push(gen_char(d));
                }
            }
            4 => {
                if d.chance(60) {
                    w.push(*d.pick(alias_chars()));
                } else if d.chance(40) {
                    w.push(*d.pick(SPECIALS));
                } else {
                    w.push(*d.pick(FOREIGN));
                }
            }
            5 => w.push('\n'),
            _ => {
                // pattern word followed by a lookahead word (or a near miss)
                let p = *d.pick(&all);
                sample_word(d, &p.m, &model.preds, &mut w, &mut fuel);
                let with_la: Vec<&&model::PatM> = all.iter().filter(|p| p.la.is_some()).collect();
                if !with_la.is_empty() {
                    let q = **d.pick(&with_la);
                    let mut fuel2 = 8;
                    sample_word(d, &q.la.as_ref().unwrap().1, &model.preds, &mut w, &mut fuel2);
                }
            }
        }
        s.push_str(&w);
        if s.chars().count() >= max_chars {
            break;
        }
    }
    if s.chars().count() > max_chars {
        s = s.chars().take(max_chars).collect();
    }
    s
}

/// Arbitrary scalar values, including the ends of the 1-, 2-, 3-, 4-byte ranges (C07).
pub fn gen_any_char(d: &mut Dec) -> char {
    const EDGES: &[char] = &[
        '\0', '\u{7F}', '\u{80}', '\u{7FF}', '\u{800}', '\u{D7FF}', '\u{E000}', '\u{FFFF}',
        '\u{10000}', '\u{10FFFF}', '\u{FEFF}', '\u{200B}',
    ];
    match d.weighted(&[6, 2, 3]) {
        0 => gen_char(d),
        1 => *d.pick(EDGES),
        _ => {
            let i = d.below(crate::sets::NSCALARS);
            crate::sets::char_of(i)
        }
    }
}


// --- large cases -------------------------------------------------------------------------------
// Defects confined to sizes beyond a threshold (more than 16 transitions, 64 classes or patterns,
// 128 tokens, 4096 bytes ...) are invisible to small cases; a small share of the cases is therefore
// drawn from these generators.

/// A wide alphabet for large pattern sets (every literal is a character class of its own).
pub fn wide_alphabet() -> Vec<char> {
    let mut v: Vec<char> = ('a'..='z').chain('A'..='Z').chain('0'..='9').collect();
    v.extend("éßΩ€中😀дяñøæþλπσ♥".chars());
    v
}

/// A mode with many patterns (17-140): mostly distinct single literals (more than 64 character
/// classes), copies of earlier patterns (same language, other token type / lookahead), short
/// sequences and a few generated expressions.
pub fn gen_large_mode(d: &mut Dec, p: &GenParams, name: &str) -> ModeSpec {
    let wide = wide_alphabet();
    let n = match d.below(4) {
        0 => 17 + d.below(24),
        1 => 63 + d.below(6),
        2 => 65 + d.below(30),
        _ => 100 + d.below(41),
    };
    let small = GenParams {
        max_depth: 2,
        max_nodes: 6,
        ..p.clone()
    };
    let offset = d.below(wide.len());
    let mut pats: Vec<PatSpec> = Vec::with_capacity(n);
    for i in 0..n {
        let rx = match d.weighted(&[11, 4, 2, 3]) {
            0 => Rx::Lit(wide[(offset + i) % wide.len()], LitForm::Verbatim),
            1 if i > 0 => {
                // a copy: prefer the pattern 64 places earlier (aliasing of 64-bit masks)
                let j = if i >= 64 && d.bool() { i - 64 } else { d.below(i) };
                pats[j].rx.clone()
            }
            2 => Rx::Concat(vec![
                Rx::Lit(*d.pick(&wide), LitForm::Verbatim),
                Rx::Lit(*d.pick(&wide), LitForm::Verbatim),
            ]),
            _ => gen_pattern_rx(d, &small),
        };
        let tt = if d.chance(200) { i } else { 1000 + i * 3 };
        // (a pattern with a lookahead 64 places after another pattern with a lookahead and the same
        // expression: both accept at the same position)
        let twin64 = p.lookahead_per_256 > 0 && i >= 64 && pats[i - 64].la.is_some() && d.chance(128);
        let rx = if twin64 { pats[i - 64].rx.clone() } else { rx };
        let la = if twin64 || (p.lookahead_per_256 > 0 && d.chance(p.lookahead_per_256)) {
            Some(LaSpec {
                positive: d.bool(),
                rx: if d.bool() {
                    Rx::Lit(*d.pick(&wide), LitForm::Verbatim)
                } else {
                    gen_lookahead_rx(d, &small)
                },
            })
        } else {
            None
        };
        pats.push(PatSpec { rx, tt, la });
    }
    // token types distinct
    for i in 0..pats.len() {
        while pats[..i].iter().any(|q| q.tt == pats[i].tt) {
            pats[i].tt += 5000;
        }
    }
    ModeSpec {
        name: name.to_string(),
        pats,
        transitions: vec![],
    }
}

/// Many transitions (up to 40) for a mode with many token types.
pub fn add_many_transitions(d: &mut Dec, modes: &mut [ModeSpec], mi: usize) {
    let nm = modes.len();
    let mut tts: Vec<usize> = modes[mi].pats.iter().map(|p| p.tt).collect();
    tts.sort_unstable();
    tts.dedup();
    let want = if d.chance(40) { 65 + d.below(70) } else { 17 + d.below(24) };
    let step = (tts.len() / want.min(tts.len()).max(1)).max(1);
    let mut ts = Vec::new();
    for (k, t) in tts.iter().enumerate() {
        if k % step == 0 && ts.len() < want {
            ts.push((*t, d.below(nm)));
        }
    }
    ts.sort_unstable();
    modes[mi].transitions = ts;
}

/// A long input (lo..hi characters) made of words of the configuration, so that it contains many
/// tokens.
pub fn gen_long_input(d: &mut Dec, model: &Model, lo: usize, hi: usize) -> String {
    let target = lo + d.below(hi - lo + 1);
    let mut s = String::new();
    let mut n = 0;
    let mut guard = 0;
    while n < target && guard < 4 * target + 16 {
        guard += 1;
        let piece = gen_input(d, model, 8);
        n += piece.chars().count().max(1);
        s.push_str(&piece);
        if piece.is_empty() {
            s.push(gen_char(d));
        }
    }
    s
}

/// The argument of peek_n: small most of the time, sometimes beyond 128 / 256 / 65 536 tokens, and
/// rarely the largest value (a preallocation of n elements must not be attempted blindly).
pub fn gen_peek_n(d: &mut Dec, small: usize) -> usize {
    gen_peek_n_opt(d, small, false)
}

/// `huge`: also the largest values (only in the checks whose property covers every n and the
/// absence of panics: C07, C11).
pub fn gen_peek_n_opt(d: &mut Dec, small: usize, huge: bool) -> usize {
    match d.weighted(&[60, 2, if huge { 1 } else { 0 }]) {
        0 => d.below(small),
        1 => *d.pick(&[17usize, 64, 65, 128, 129, 130, 200, 256, 257, 1000, 65_536]),
        _ => *d.pick(&[usize::MAX, usize::MAX / 2 + 1]),
    }
}

/// A pattern matching long runs and an input containing a token of 250-4200 bytes (around the
/// 256 / 512 / 1024 / 4096 marks), ASCII with non-ASCII characters near its end, followed by short
/// tokens.
pub fn gen_long_token(d: &mut Dec) -> (Rx, String) {
    let rx = parse_supported(*d.pick(&[r"[^#]+", r"[a-zéß€\n ]+", r"/\*([^*]|\*[^/])*\*/"]));
    let comment = matches!(rx, Rx::Concat(_));
    let target = match d.below(6) {
        0 => 250 + d.below(12),
        1 => 508 + d.below(12),
        2 => 1020 + d.below(12),
        3 => 4090 + d.below(12),
        4 => 600 + d.below(200),
        _ => 300 + d.below(4000),
    };
    let mut s = String::new();
    if d.bool() {
        s.push_str("ab#");
    }
    if comment {
        s.push_str("/*");
    }
    let start = s.len();
    while s.len() - start < target {
        let near_end = s.len() - start + 12 > target;
        let c = if near_end && d.bool() {
            *d.pick(&['é', '€', 'ß'])
        } else {
            *d.pick(&['a', 'b', ' ', 'z', '\n', 'a', 'a'])
        };
        s.push(c);
    }
    s.push_str(if comment { "*/" } else { "#" });
    s.push_str("\nab ab#");
    (rx, s)
}

/// Many tiny modes (257-300): mode indices beyond one byte.
pub fn gen_many_modes(d: &mut Dec) -> Vec<ModeSpec> {
    let n = match d.below(4) {
        0 => 17 + d.below(24),
        1 => 65 + d.below(6),
        _ => 257 + d.below(44),
    };
    let mut modes = Vec::with_capacity(n);
    for i in 0..n {
        let a = Rx::Lit(*d.pick(&['a', 'b', 'c', 'x']), LitForm::Verbatim);
        let b = Rx::Repeat(Box::new(Rx::Lit(*d.pick(&['0', '1', 'a']), LitForm::Verbatim)), 1, None);
        let mut transitions = Vec::new();
        // transitions to far-away and to nearby modes
        let t1 = match d.below(3) {
            0 => n - 1 - d.below(n.min(40)),
            1 => (i + 1) % n,
            _ => d.below(n),
        };
        transitions.push((1, t1));
        if d.bool() {
            transitions.push((2, d.below(n)));
        }
        modes.push(ModeSpec {
            name: format!("M{}", i),
            pats: vec![
                PatSpec { rx: a, tt: 1, la: None },
                PatSpec { rx: b, tt: 2, la: None },
            ],
            transitions,
        });
    }
    modes
}

/// A configuration on which scanning is linear in the input whatever the input is (every pattern
/// is a run of one class): huge inputs are only combined with it, because scnr legitimately needs
/// quadratic time when a pattern like `a+b` fails late at every position.
pub fn benign_modes() -> Vec<ModeSpec> {
    let p = |s: &str, tt: usize| PatSpec {
        rx: parse_supported(s),
        tt,
        la: None,
    };
    vec![
        ModeSpec {
            name: "INITIAL".into(),
            pats: vec![p("[a-z]+", 1), p("[0-9]+", 2), p("[ \\t]+", 3), p("#", 4), p("\\n", 6)],
            transitions: vec![(4, 1)],
        },
        ModeSpec {
            name: "M1".into(),
            pats: vec![p("[a-z0-9 ]+", 5), p("\\n", 6), p("#", 4)],
            transitions: vec![(4, 0)],
        },
    ]
}

/// An input of 400-1 500 characters for `benign_modes` with hundreds of short tokens and long
/// stretches without a mode switch (windows of 128 / 256 / 1 000 tokens fill up).
pub fn gen_medium_benign_input(d: &mut Dec) -> String {
    let mut chunk = String::new();
    for _ in 0..20 + d.below(40) {
        chunk.push(*d.pick(&['a', 'b', ' ', '1', ' ', 'z', '0', ' ', '\n', 'é', ' ', 'a']));
    }
    let target = 400 + d.below(1_100);
    let mut s = String::with_capacity(target * 2);
    let mut n = 0;
    let len = chunk.chars().count();
    while n < target {
        s.push_str(&chunk);
        n += len;
        if d.chance(12) {
            s.push('#');
        }
    }
    s
}

/// A huge input (66-75 thousand characters, beyond 16-bit offsets / counts) for `benign_modes`.
pub fn gen_huge_input(d: &mut Dec, _model: &Model) -> String {
    let mut chunk = String::new();
    for _ in 0..20 + d.below(40) {
        chunk.push(*d.pick(&['a', 'b', 'z', '1', '0', ' ', ' ', '\n', '#', 'é', 'a', 'b']));
    }
    let target = 66_000 + d.below(9_000);
    let mut s = String::with_capacity(target * 2);
    let mut n = 0;
    let len = chunk.chars().count();
    while n < target {
        s.push_str(&chunk);
        n += len;
    }
    s
}
