//! Sets of Unicode scalar values as bitsets; measured base sets of named classes; evaluation of
//! class expressions (the reference side of C08 and of every pattern containing a class).

use crate::rx::*;
use std::collections::HashMap;
use std::sync::{Arc, Mutex, OnceLock};

pub const NSCALARS: usize = 0x110000 - 0x800;
const NWORDS: usize = NSCALARS / 64;

#[inline]
pub fn idx_of(c: char) -> usize {
    let cp = c as u32;
    if cp < 0xD800 {
        cp as usize
    } else {
        (cp - 0x800) as usize
    }
}

#[inline]
pub fn char_of(idx: usize) -> char {
    let cp = if idx < 0xD800 { idx } else { idx + 0x800 } as u32;
    char::from_u32(cp).unwrap()
}

#[derive(Clone, PartialEq, Eq, Hash)]
pub struct BitSet {
    pub words: Vec<u64>,
}

impl std::fmt::Debug for BitSet {
    fn fmt(&self, f: &mut std::fmt::Formatter<'_>) -> std::fmt::Result {
        write!(f, "BitSet({} members)", self.count())
    }
}

impl BitSet {
    pub fn empty() -> Self {
        BitSet {
            words: vec![0; NWORDS],
        }
    }
    pub fn full() -> Self {
        BitSet {
            words: vec![!0; NWORDS],
        }
    }
    #[inline]
    pub fn get(&self, c: char) -> bool {
        let i = idx_of(c);
        (self.words[i >> 6] >> (i & 63)) & 1 == 1
    }
    #[inline]
    pub fn set(&mut self, c: char) {
        let i = idx_of(c);
        self.words[i >> 6] |= 1 << (i & 63);
    }
    pub fn set_range(&mut self, a: char, b: char) {
        if a > b {
            return;
        }
        let (ia, ib) = (idx_of(a), idx_of(b));
        for i in ia..=ib {
            self.words[i >> 6] |= 1 << (i & 63);
        }
    }
    pub fn from_pred(f: impl Fn(char) -> bool) -> Self {
        let mut s = BitSet::empty();
        for i in 0..NSCALARS {
            if f(char_of(i)) {
                s.words[i >> 6] |= 1 << (i & 63);
            }
        }
        s
    }
    pub fn not(&self) -> Self {
        BitSet {
            words: self.words.iter().map(|w| !w).collect(),
        }
    }
    pub fn or_with(&mut self, o: &BitSet) {
        for (a, b) in self.words.iter_mut().zip(o.words.iter()) {
            *a |= b;
        }
    }
    pub fn and_with(&mut self, o: &BitSet) {
        for (a, b) in self.words.iter_mut().zip(o.words.iter()) {
            *a &= b;
        }
    }
    pub fn andnot_with(&mut self, o: &BitSet) {
        for (a, b) in self.words.iter_mut().zip(o.words.iter()) {
            *a &= !b;
        }
    }
    pub fn xor_with(&mut self, o: &BitSet) {
        for (a, b) in self.words.iter_mut().zip(o.words.iter()) {
            *a ^= b;
        }
    }
    pub fn count(&self) -> usize {
        self.words.iter().map(|w| w.count_ones() as usize).sum()
    }
    /// First character where the two sets differ.
    pub fn first_difference(&self, o: &BitSet) -> Option<char> {
        for (i, (a, b)) in self.words.iter().zip(o.words.iter()).enumerate() {
            let d = a ^ b;
            if d != 0 {
                return Some(char_of(i * 64 + d.trailing_zeros() as usize));
            }
        }
        None
    }
    pub fn difference_count(&self, o: &BitSet) -> usize {
        self.words
            .iter()
            .zip(o.words.iter())
            .map(|(a, b)| (a ^ b).count_ones() as usize)
            .sum()
    }
}

/// The string of all scalar values in ascending order.
pub fn all_scalars() -> &'static str {
    static ALL: OnceLock<String> = OnceLock::new();
    ALL.get_or_init(|| {
        let mut s = String::with_capacity(4_400_000);
        for i in 0..NSCALARS {
            s.push(char_of(i));
        }
        s
    })
}

/// Measures, through the public API, the set of characters a single-character pattern matches:
/// scanner built (uncached) from that single pattern, scanned over the string of all scalar
/// values; every token must be exactly one character.
pub fn measure_pattern(pattern: &str) -> Result<BitSet, String> {
    let scanner = scnr::ScannerBuilder::new()
        .add_scanner_mode(scnr::ScannerMode::new(
            "M",
            vec![scnr::Pattern::new(pattern.to_string(), 0)],
            vec![],
        ))
        .build_uncached()
        .map_err(|e| format!("build of {:?} failed: {}", pattern, e))?;
    measure_scanner(&scanner)
}

pub fn measure_scanner(scanner: &scnr::Scanner) -> Result<BitSet, String> {
    let all = all_scalars();
    let mut set = BitSet::empty();
    for m in scanner.find_iter(all) {
        let c = all[m.start()..]
            .chars()
            .next()
            .ok_or_else(|| "match beyond the input".to_string())?;
        if m.end() - m.start() != c.len_utf8() {
            return Err(format!(
                "token {:?} is not exactly one character (starts at {:?})",
                m, c
            ));
        }
        set.set(c);
    }
    Ok(set)
}

/// Like measure_scanner for a scanner with several single-character patterns with token types
/// 0..k: the set of characters reported for each token type.
pub fn measure_scanner_multi(scanner: &scnr::Scanner, k: usize) -> Result<Vec<BitSet>, String> {
    let all = all_scalars();
    let mut sets: Vec<BitSet> = (0..k).map(|_| BitSet::empty()).collect();
    for m in scanner.find_iter(all) {
        let c = all[m.start()..]
            .chars()
            .next()
            .ok_or_else(|| "match beyond the input".to_string())?;
        if m.end() - m.start() != c.len_utf8() {
            return Err(format!(
                "token {:?} is not exactly one character (starts at {:?})",
                m, c
            ));
        }
        if m.token_type() >= k {
            return Err(format!("token {:?} has an unknown token type", m));
        }
        sets[m.token_type()].set(c);
    }
    Ok(sets)
}

pub fn named_alone_pattern(n: &Named) -> String {
    print_class_alone(&Class::Named(n.clone(), false))
}

/// Base set of a named item: what the implementation matches when the item is used alone
/// (wording of C08). Measured once per process.
pub fn base_set(n: &Named) -> Arc<BitSet> {
    static CACHE: OnceLock<Mutex<HashMap<Named, Arc<BitSet>>>> = OnceLock::new();
    let cache = CACHE.get_or_init(|| Mutex::new(HashMap::new()));
    if let Some(s) = cache.lock().unwrap().get(n) {
        return s.clone();
    }
    let pat = named_alone_pattern(n);
    let set = match crate::run::guard(|| measure_pattern(&pat)) {
        Ok(Ok(s)) => s,
        Ok(Err(e)) => {
            crate::run::harness_error(&format!("cannot measure base set of {:?}: {}", pat, e))
        }
        Err(p) => crate::run::harness_error(&format!(
            "cannot measure base set of {:?}: scanning the string of all scalar values panicked: {} (C07 and C08 scan that string as a fixed case and report this as a violation)",
            pat, p
        )),
    };
    let set = Arc::new(set);
    cache.lock().unwrap().insert(n.clone(), set.clone());
    set
}

// --- evaluation on a single character -------------------------------------------------------

pub fn item_matches(it: &ClassItem, c: char) -> bool {
    match it {
        ClassItem::Lit('.', crate::rx::LitForm::BareDot) => dot_matches(c),
        ClassItem::Lit(l, _) => *l == c,
        ClassItem::Range(a, b) => *a <= c && c <= *b,
        ClassItem::Named(n, neg) => base_set(n).get(c) != *neg,
        ClassItem::Bracket(b) => bracket_matches(b, c),
    }
}

pub fn set_matches(s: &ClassSet, c: char) -> bool {
    match s {
        ClassSet::Items(v) => v.iter().any(|it| item_matches(it, c)),
        ClassSet::BinOp(op, l, r) => {
            let (a, b) = (set_matches(l, c), set_matches(r, c));
            match op {
                SetOp::Intersection => a && b,
                SetOp::Difference => a && !b,
                SetOp::SymDiff => a != b,
            }
        }
    }
}

pub fn bracket_matches(b: &Bracket, c: char) -> bool {
    set_matches(&b.set, c) != b.negated
}

pub fn class_matches(cl: &Class, c: char) -> bool {
    match cl {
        Class::Named(n, neg) => base_set(n).get(c) != *neg,
        Class::Bracket(b) => bracket_matches(b, c),
    }
}

#[inline]
pub fn dot_matches(c: char) -> bool {
    c != '\n' && c != '\r'
}

// --- evaluation on all characters at once -----------------------------------------------------

fn item_set(it: &ClassItem) -> BitSet {
    match it {
        ClassItem::Lit('.', crate::rx::LitForm::BareDot) => {
            let mut s = BitSet::empty();
            s.set('\n');
            s.set('\r');
            s.not()
        }
        ClassItem::Lit(l, _) => {
            let mut s = BitSet::empty();
            s.set(*l);
            s
        }
        ClassItem::Range(a, b) => {
            let mut s = BitSet::empty();
            s.set_range(*a, *b);
            s
        }
        ClassItem::Named(n, neg) => {
            let s = base_set(n);
            if *neg {
                s.not()
            } else {
                (*s).clone()
            }
        }
        ClassItem::Bracket(b) => bracket_set(b),
    }
}

fn set_set(s: &ClassSet) -> BitSet {
    match s {
        ClassSet::Items(v) => {
            let mut acc = BitSet::empty();
            for it in v {
                acc.or_with(&item_set(it));
            }
            acc
        }
        ClassSet::BinOp(op, l, r) => {
            let mut a = set_set(l);
            let b = set_set(r);
            match op {
                SetOp::Intersection => a.and_with(&b),
                SetOp::Difference => a.andnot_with(&b),
                SetOp::SymDiff => a.xor_with(&b),
            }
            a
        }
    }
}

pub fn bracket_set(b: &Bracket) -> BitSet {
    let s = set_set(&b.set);
    if b.negated {
        s.not()
    } else {
        s
    }
}

pub fn class_set(cl: &Class) -> BitSet {
    match cl {
        Class::Named(n, neg) => {
            let s = base_set(n);
            if *neg {
                s.not()
            } else {
                (*s).clone()
            }
        }
        Class::Bracket(b) => bracket_set(b),
    }
}
