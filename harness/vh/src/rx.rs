//! The harness' own regular-expression representation: types, printer (regex-syntax surface
//! syntax), translator from a regex-syntax AST (used for the printer self-check, for replay files
//! and for the repository's corpus patterns), nullability.

use regex_syntax::ast::{self, Ast};
use std::fmt::Write;

#[derive(Debug, Clone, PartialEq, Eq, Hash, PartialOrd, Ord)]
pub enum LitForm {
    Verbatim,
    /// `\.` style (meta or superfluous escape)
    Backslash,
    /// `\x41`
    HexFixed,
    /// `\x{41}`
    HexBrace,
    /// four hex digits after backslash-u
    UShort,
    /// `\u{41}`
    UBrace,
    /// `\U00000041`
    ULong,
    /// `\n \t \r \f \v \a`
    Special,
    /// an unescaped `.` as an item of a bracketed class (`[.]`, `[a.]`): scnr gives it the meaning
    /// it has outside brackets - everything except \n and \r (match_function.rs,
    /// `TryFrom<&Literal>`) - and the reference follows it. Only ever combined with the character '.'
    BareDot,
}

#[derive(Debug, Clone, Copy, PartialEq, Eq, Hash, PartialOrd, Ord)]
pub enum PerlKind {
    Digit,
    Space,
    Word,
}

pub const ASCII_KINDS: [&str; 14] = [
    "alnum", "alpha", "ascii", "blank", "cntrl", "digit", "graph", "lower", "print", "punct",
    "space", "upper", "word", "xdigit",
];

/// Unicode class spellings scnr accepts (probe, DESIGN 3.3): one-letter L N Z P C and long names.
pub const UNICODE_ONE_LETTER: [char; 5] = ['L', 'N', 'Z', 'P', 'C'];
pub const UNICODE_NAMED: &[&str] = &[
    "Alphabetic",
    "ASCII_Hex_Digit",
    "Bidi_Control",
    "Case_Ignorable",
    "Cased",
    "Composition_Exclusion",
    "Dash",
    "Default_Ignorable_Code_Point",
    "Deprecated",
    "Diacritic",
    "Emoji_Component",
    "Emoji_Modifier_Base",
    "Emoji_Modifier",
    "Emoji_Presentation",
    "Emoji",
    "Extended_Pictographic",
    "Extender",
    "Full_Composition_Exclusion",
    "Grapheme_Extend",
    "Hex_Digit",
    "Hyphen",
    "ID_Continue",
    "ID_Start",
    "Ideographic",
    "IDS_Binary_Operator",
    "IDS_Trinary_Operator",
    "Join_Control",
    "Logical_Order_Exception",
    "Lowercase",
    "Math",
    "Noncharacter_Code_Point",
    "Other_Alphabetic",
    "Other_Default_Ignorable_Code_Point",
    "Other_Grapheme_Extend",
    "Other_ID_Continue",
    "Other_ID_Start",
    "Other_Lowercase",
    "Other_Math",
    "Other_Uppercase",
    "Pattern_Syntax",
    "Pattern_White_Space",
    "Prepended_Concatenation_Mark",
    "Quotation_Mark",
    "Radical",
    "Regional_Indicator",
    "Sentence_Terminal",
    "Soft_Dotted",
    "Terminal_Punctuation",
    "Unified_Ideograph",
    "Uppercase",
    "Variation_Selector",
    "White_Space",
    "XID_Continue",
    "XID_Start",
];

/// A named set whose content is opaque to the reference (measured on the implementation when used
/// alone, see sets.rs). The negation flag lives outside.
#[derive(Debug, Clone, PartialEq, Eq, Hash, PartialOrd, Ord)]
pub enum Named {
    Perl(PerlKind),
    Ascii(usize),
    UnicodeLetter(char),
    UnicodeName(String),
}

#[derive(Debug, Clone, PartialEq, Eq, Hash, PartialOrd, Ord)]
pub enum ClassItem {
    Lit(char, LitForm),
    Range(char, char),
    Named(Named, bool),
    Bracket(Box<Bracket>),
}

#[derive(Debug, Clone, Copy, PartialEq, Eq, Hash, PartialOrd, Ord)]
pub enum SetOp {
    Intersection,
    Difference,
    SymDiff,
}

#[derive(Debug, Clone, PartialEq, Eq, Hash, PartialOrd, Ord)]
pub enum ClassSet {
    Items(Vec<ClassItem>),
    BinOp(SetOp, Box<ClassSet>, Box<ClassSet>),
}

#[derive(Debug, Clone, PartialEq, Eq, Hash, PartialOrd, Ord)]
pub struct Bracket {
    pub negated: bool,
    pub set: ClassSet,
}

/// A character class as it can stand in a pattern.
#[derive(Debug, Clone, PartialEq, Eq, Hash, PartialOrd, Ord)]
pub enum Class {
    /// `\d`, `\pL`, `\p{Alphabetic}` and their negations standing alone
    Named(Named, bool),
    Bracket(Bracket),
}

#[derive(Debug, Clone, Copy, PartialEq, Eq, Hash, PartialOrd, Ord)]
pub enum GroupKind {
    Capture,
    NonCapture,
    Named,
}

#[derive(Debug, Clone, PartialEq, Eq, Hash, PartialOrd, Ord)]
pub enum Rx {
    Empty,
    Lit(char, LitForm),
    Dot,
    Class(Class),
    Concat(Vec<Rx>),
    Alt(Vec<Rx>),
    Repeat(Box<Rx>, u32, Option<u32>),
    Group(Box<Rx>, GroupKind),
    /// An opaque snippet of surface syntax (C15: planted unsupported constructs). Never matched by
    /// the reference.
    Raw(String),
}

// ---------------------------------------------------------------------------------------------
// Printer

fn special_escape(c: char) -> Option<&'static str> {
    Some(match c {
        '\n' => "\\n",
        '\t' => "\\t",
        '\r' => "\\r",
        '\x0C' => "\\f",
        '\x0B' => "\\v",
        '\x07' => "\\a",
        _ => return None,
    })
}

const TOP_MUST_ESCAPE: &str = "\\.+*?()|[]{}^$";
const CLASS_MUST_ESCAPE: &str = "\\[]^-&~:.";

fn print_lit(out: &mut String, c: char, form: &LitForm, in_class: bool) {
    let must = if in_class {
        CLASS_MUST_ESCAPE
    } else {
        TOP_MUST_ESCAPE
    };
    let cp = c as u32;
    match form {
        LitForm::BareDot => {
            if in_class && c == '.' {
                out.push('.');
            } else {
                print_lit(out, c, &LitForm::Verbatim, in_class);
            }
        }
        LitForm::Verbatim if !must.contains(c) => out.push(c),
        LitForm::Verbatim | LitForm::Backslash => {
            if c.is_ascii_punctuation() && c != '<' && c != '>' {
                out.push('\\');
                out.push(c);
            } else if must.contains(c) {
                // cannot happen: all must-escape characters are ASCII punctuation
                let _ = write!(out, "\\x{{{:X}}}", cp);
            } else if *form == LitForm::Verbatim {
                out.push(c);
            } else {
                let _ = write!(out, "\\x{{{:X}}}", cp);
            }
        }
        LitForm::HexFixed if cp <= 0xFF => {
            let _ = write!(out, "\\x{:02X}", cp);
        }
        LitForm::UShort if cp <= 0xFFFF => {
            let _ = write!(out, "\\u{:04X}", cp);
        }
        LitForm::ULong => {
            let _ = write!(out, "\\U{:08X}", cp);
        }
        LitForm::Special => {
            if let Some(s) = special_escape(c) {
                out.push_str(s);
            } else {
                let _ = write!(out, "\\u{{{:X}}}", cp);
            }
        }
        LitForm::HexBrace | LitForm::HexFixed => {
            let _ = write!(out, "\\x{{{:X}}}", cp);
        }
        LitForm::UBrace | LitForm::UShort => {
            let _ = write!(out, "\\u{{{:X}}}", cp);
        }
    }
}

fn print_named(out: &mut String, n: &Named, negated: bool, in_class: bool) {
    match n {
        Named::Perl(k) => {
            let ch = match (k, negated) {
                (PerlKind::Digit, false) => 'd',
                (PerlKind::Digit, true) => 'D',
                (PerlKind::Space, false) => 's',
                (PerlKind::Space, true) => 'S',
                (PerlKind::Word, false) => 'w',
                (PerlKind::Word, true) => 'W',
            };
            out.push('\\');
            out.push(ch);
        }
        Named::Ascii(i) => {
            debug_assert!(in_class);
            let _ = write!(
                out,
                "[:{}{}:]",
                if negated { "^" } else { "" },
                ASCII_KINDS[*i]
            );
        }
        Named::UnicodeLetter(c) => {
            out.push('\\');
            out.push(if negated { 'P' } else { 'p' });
            out.push(*c);
        }
        Named::UnicodeName(name) => {
            out.push('\\');
            out.push(if negated { 'P' } else { 'p' });
            out.push('{');
            out.push_str(name);
            out.push('}');
        }
    }
}

fn print_item(out: &mut String, item: &ClassItem) {
    match item {
        ClassItem::Lit(c, form) => print_lit(out, *c, form, true),
        ClassItem::Range(a, b) => {
            print_lit(out, *a, &range_form(*a), true);
            out.push('-');
            print_lit(out, *b, &range_form(*b), true);
        }
        ClassItem::Named(n, neg) => print_named(out, n, *neg, true),
        ClassItem::Bracket(b) => print_bracket(out, b),
    }
}

fn range_form(c: char) -> LitForm {
    if c.is_ascii_alphanumeric() {
        LitForm::Verbatim
    } else {
        LitForm::UBrace
    }
}

fn print_set(out: &mut String, set: &ClassSet) {
    match set {
        ClassSet::Items(items) => {
            for it in items {
                print_item(out, it);
            }
        }
        ClassSet::BinOp(op, l, r) => {
            print_set(out, l);
            out.push_str(match op {
                SetOp::Intersection => "&&",
                SetOp::Difference => "--",
                SetOp::SymDiff => "~~",
            });
            print_set(out, r);
        }
    }
}

pub fn print_bracket(out: &mut String, b: &Bracket) {
    out.push('[');
    if b.negated {
        out.push('^');
    }
    print_set(out, &b.set);
    out.push(']');
}

pub fn print_class(out: &mut String, c: &Class) {
    match c {
        Class::Named(n, neg) => match n {
            Named::Ascii(_) => {
                // an ASCII class cannot stand alone; wrap
                out.push('[');
                print_named(out, n, *neg, true);
                out.push(']');
            }
            _ => print_named(out, n, *neg, false),
        },
        Class::Bracket(b) => print_bracket(out, b),
    }
}

/// Precedence levels: 0 alternation, 1 concatenation, 2 repetition operand (atom)
fn print_rx(out: &mut String, rx: &Rx, level: u8, ctr: &mut usize) {
    match rx {
        Rx::Empty => {
            if level >= 2 {
                out.push_str("(?:)");
            }
        }
        Rx::Lit(c, form) => print_lit(out, *c, form, false),
        Rx::Dot => out.push('.'),
        Rx::Class(c) => print_class(out, c),
        Rx::Raw(s) => {
            if level >= 1 {
                out.push_str("(?:");
                out.push_str(s);
                out.push(')');
            } else {
                out.push_str(s);
            }
        }
        Rx::Concat(v) => {
            let wrap = level >= 2 || (level >= 1 && v.len() < 2);
            if wrap {
                out.push_str("(?:");
            }
            for x in v {
                print_rx(out, x, 1, ctr);
            }
            if wrap {
                out.push(')');
            }
        }
        Rx::Alt(v) => {
            let wrap = level >= 1 || v.len() < 2;
            if wrap {
                out.push_str("(?:");
            }
            for (i, x) in v.iter().enumerate() {
                if i > 0 {
                    out.push('|');
                }
                print_rx(out, x, 0, ctr);
            }
            if wrap {
                out.push(')');
            }
        }
        Rx::Repeat(inner, min, max) => {
            // a repetition directly under a repetition must be grouped (`a**` is accepted by
            // regex-syntax but `a{2}{3}` reads badly; group always for clarity)
            match **inner {
                Rx::Repeat(..) => {
                    out.push_str("(?:");
                    print_rx(out, inner, 0, ctr);
                    out.push(')');
                }
                _ => print_rx(out, inner, 2, ctr),
            }
            match (min, max) {
                (0, Some(1)) => out.push('?'),
                (0, None) => out.push('*'),
                (1, None) => out.push('+'),
                (m, None) => {
                    let _ = write!(out, "{{{},}}", m);
                }
                (m, Some(n)) if m == n => {
                    let _ = write!(out, "{{{}}}", m);
                }
                (m, Some(n)) => {
                    let _ = write!(out, "{{{},{}}}", m, n);
                }
            }
        }
        Rx::Group(inner, kind) => {
            match kind {
                GroupKind::Capture => out.push('('),
                GroupKind::NonCapture => out.push_str("(?:"),
                GroupKind::Named => {
                    *ctr += 1;
                    let _ = write!(out, "(?P<n{}>", *ctr);
                }
            }
            print_rx(out, inner, 0, ctr);
            out.push(')');
        }
    }
}

pub fn print(rx: &Rx) -> String {
    let mut s = String::new();
    let mut ctr = 0;
    print_rx(&mut s, rx, 0, &mut ctr);
    s
}

pub fn print_class_alone(c: &Class) -> String {
    let mut s = String::new();
    print_class(&mut s, c);
    s
}

// ---------------------------------------------------------------------------------------------
// Translator regex-syntax AST -> Rx

/// Why a pattern is outside the supported subset (used by the C15 oracle too).
#[derive(Debug, Clone, PartialEq, Eq)]
pub enum Unsupported {
    Flags,
    Assertion,
    NonGreedy,
    FlaggedGroup,
    UnicodeValued,
    /// a Unicode class name/letter that is not in scnr's documented list
    UnicodeUnknown(String),
    /// `[.]`-style bare dot inside brackets: statement does not settle the meaning (domain rule 5)
    BareDotInClass,
}

fn lit_form(kind: &ast::LiteralKind) -> LitForm {
    use ast::{HexLiteralKind, LiteralKind};
    match kind {
        LiteralKind::Verbatim => LitForm::Verbatim,
        LiteralKind::Meta | LiteralKind::Superfluous => LitForm::Backslash,
        LiteralKind::Octal => LitForm::Backslash,
        LiteralKind::HexFixed(HexLiteralKind::X) => LitForm::HexFixed,
        LiteralKind::HexFixed(HexLiteralKind::UnicodeShort) => LitForm::UShort,
        LiteralKind::HexFixed(HexLiteralKind::UnicodeLong) => LitForm::ULong,
        LiteralKind::HexBrace(HexLiteralKind::X) => LitForm::HexBrace,
        LiteralKind::HexBrace(_) => LitForm::UBrace,
        LiteralKind::Special(_) => LitForm::Special,
    }
}

fn tr_unicode(u: &ast::ClassUnicode) -> Result<(Named, bool), Unsupported> {
    let n = match &u.kind {
        ast::ClassUnicodeKind::OneLetter(c) => {
            if UNICODE_ONE_LETTER.contains(c) {
                Named::UnicodeLetter(*c)
            } else {
                return Err(Unsupported::UnicodeUnknown(c.to_string()));
            }
        }
        ast::ClassUnicodeKind::Named(name) => {
            if UNICODE_NAMED.contains(&name.as_str()) {
                Named::UnicodeName(name.clone())
            } else {
                return Err(Unsupported::UnicodeUnknown(name.clone()));
            }
        }
        ast::ClassUnicodeKind::NamedValue { .. } => return Err(Unsupported::UnicodeValued),
    };
    Ok((n, u.negated))
}

fn tr_perl(p: &ast::ClassPerl) -> (Named, bool) {
    let k = match p.kind {
        ast::ClassPerlKind::Digit => PerlKind::Digit,
        ast::ClassPerlKind::Space => PerlKind::Space,
        ast::ClassPerlKind::Word => PerlKind::Word,
    };
    (Named::Perl(k), p.negated)
}

fn ascii_index(kind: &ast::ClassAsciiKind) -> usize {
    use ast::ClassAsciiKind::*;
    match kind {
        Alnum => 0,
        Alpha => 1,
        Ascii => 2,
        Blank => 3,
        Cntrl => 4,
        Digit => 5,
        Graph => 6,
        Lower => 7,
        Print => 8,
        Punct => 9,
        Space => 10,
        Upper => 11,
        Word => 12,
        Xdigit => 13,
    }
}

fn tr_items(item: &ast::ClassSetItem, out: &mut Vec<ClassItem>) -> Result<(), Unsupported> {
    use ast::ClassSetItem as I;
    match item {
        I::Empty(_) => {}
        I::Literal(l) => {
            if l.c == '.' && l.kind == ast::LiteralKind::Verbatim {
                out.push(ClassItem::Lit('.', LitForm::BareDot));
            } else {
                out.push(ClassItem::Lit(l.c, lit_form(&l.kind)))
            }
        }
        I::Range(r) => {
            out.push(ClassItem::Range(r.start.c, r.end.c));
        }
        I::Ascii(a) => out.push(ClassItem::Named(
            Named::Ascii(ascii_index(&a.kind)),
            a.negated,
        )),
        I::Unicode(u) => {
            let (n, neg) = tr_unicode(u)?;
            out.push(ClassItem::Named(n, neg));
        }
        I::Perl(p) => {
            let (n, neg) = tr_perl(p);
            out.push(ClassItem::Named(n, neg));
        }
        I::Bracketed(b) => out.push(ClassItem::Bracket(Box::new(tr_bracket(b)?))),
        I::Union(u) => {
            for it in &u.items {
                tr_items(it, out)?;
            }
        }
    }
    Ok(())
}

fn tr_set(set: &ast::ClassSet) -> Result<ClassSet, Unsupported> {
    match set {
        ast::ClassSet::Item(item) => {
            let mut v = Vec::new();
            tr_items(item, &mut v)?;
            Ok(ClassSet::Items(v))
        }
        ast::ClassSet::BinaryOp(op) => {
            let k = match op.kind {
                ast::ClassSetBinaryOpKind::Intersection => SetOp::Intersection,
                ast::ClassSetBinaryOpKind::Difference => SetOp::Difference,
                ast::ClassSetBinaryOpKind::SymmetricDifference => SetOp::SymDiff,
            };
            Ok(ClassSet::BinOp(
                k,
                Box::new(tr_set(&op.lhs)?),
                Box::new(tr_set(&op.rhs)?),
            ))
        }
    }
}

pub fn tr_bracket(b: &ast::ClassBracketed) -> Result<Bracket, Unsupported> {
    Ok(Bracket {
        negated: b.negated,
        set: tr_set(&b.kind)?,
    })
}

pub fn translate(ast: &Ast) -> Result<Rx, Unsupported> {
    Ok(match ast {
        Ast::Empty(_) => Rx::Empty,
        Ast::Flags(_) => return Err(Unsupported::Flags),
        Ast::Literal(l) => Rx::Lit(l.c, lit_form(&l.kind)),
        Ast::Dot(_) => Rx::Dot,
        Ast::Assertion(_) => return Err(Unsupported::Assertion),
        Ast::ClassUnicode(u) => {
            let (n, neg) = tr_unicode(u)?;
            Rx::Class(Class::Named(n, neg))
        }
        Ast::ClassPerl(p) => {
            let (n, neg) = tr_perl(p);
            Rx::Class(Class::Named(n, neg))
        }
        Ast::ClassBracketed(b) => Rx::Class(Class::Bracket(tr_bracket(b)?)),
        Ast::Repetition(r) => {
            let inner = translate(&r.ast)?;
            if !r.greedy {
                return Err(Unsupported::NonGreedy);
            }
            let (min, max) = match &r.op.kind {
                ast::RepetitionKind::ZeroOrOne => (0, Some(1)),
                ast::RepetitionKind::ZeroOrMore => (0, None),
                ast::RepetitionKind::OneOrMore => (1, None),
                ast::RepetitionKind::Range(rr) => match rr {
                    ast::RepetitionRange::Exactly(n) => (*n, Some(*n)),
                    ast::RepetitionRange::AtLeast(n) => (*n, None),
                    ast::RepetitionRange::Bounded(m, n) => (*m, Some(*n)),
                },
            };
            Rx::Repeat(Box::new(inner), min, max)
        }
        Ast::Group(g) => {
            let kind = match &g.kind {
                ast::GroupKind::CaptureIndex(_) => GroupKind::Capture,
                ast::GroupKind::CaptureName { .. } => GroupKind::Named,
                ast::GroupKind::NonCapturing(flags) => {
                    if flags
                        .items
                        .iter()
                        .any(|f| matches!(f.kind, ast::FlagsItemKind::Flag(_)))
                    {
                        return Err(Unsupported::FlaggedGroup);
                    }
                    GroupKind::NonCapture
                }
            };
            Rx::Group(Box::new(translate(&g.ast)?), kind)
        }
        Ast::Alternation(a) => {
            let mut v = Vec::new();
            for x in &a.asts {
                v.push(translate(x)?);
            }
            Rx::Alt(v)
        }
        Ast::Concat(c) => {
            let mut v = Vec::new();
            for x in &c.asts {
                v.push(translate(x)?);
            }
            Rx::Concat(v)
        }
    })
}

#[derive(Debug, Clone, PartialEq, Eq)]
pub enum ParseOutcome {
    SyntaxError(String),
    Unsupported(Unsupported),
    Ok(Rx),
}

pub fn parse(pattern: &str) -> ParseOutcome {
    match regex_syntax::ast::parse::Parser::new().parse(pattern) {
        Err(e) => ParseOutcome::SyntaxError(e.to_string()),
        Ok(ast) => match translate(&ast) {
            Ok(rx) => ParseOutcome::Ok(rx),
            Err(u) => ParseOutcome::Unsupported(u),
        },
    }
}

/// Parses a pattern of the supported subset (harness error otherwise).
pub fn parse_supported(pattern: &str) -> Rx {
    match parse(pattern) {
        ParseOutcome::Ok(r) => r,
        other => crate::run::harness_error(&format!("{:?} should be supported: {:?}", pattern, other)),
    }
}

// ---------------------------------------------------------------------------------------------
// Normal form used to compare a generated Rx with the parse of its printed form

fn norm_item(it: &ClassItem) -> ClassItem {
    match it {
        ClassItem::Lit('.', LitForm::BareDot) => it.clone(),
        ClassItem::Lit(c, _) => ClassItem::Lit(*c, LitForm::Verbatim),
        ClassItem::Bracket(b) => ClassItem::Bracket(Box::new(norm_bracket(b))),
        other => other.clone(),
    }
}

fn norm_set(s: &ClassSet) -> ClassSet {
    match s {
        ClassSet::Items(v) => ClassSet::Items(v.iter().map(norm_item).collect()),
        ClassSet::BinOp(op, l, r) => {
            ClassSet::BinOp(*op, Box::new(norm_set(l)), Box::new(norm_set(r)))
        }
    }
}

fn norm_bracket(b: &Bracket) -> Bracket {
    Bracket {
        negated: b.negated,
        set: norm_set(&b.set),
    }
}

pub fn normalize(rx: &Rx) -> Rx {
    match rx {
        Rx::Empty | Rx::Dot | Rx::Raw(_) => rx.clone(),
        Rx::Lit(c, _) => Rx::Lit(*c, LitForm::Verbatim),
        Rx::Class(Class::Named(Named::Ascii(i), neg)) => Rx::Class(Class::Bracket(Bracket {
            negated: false,
            set: ClassSet::Items(vec![ClassItem::Named(Named::Ascii(*i), *neg)]),
        })),
        Rx::Class(Class::Named(..)) => rx.clone(),
        Rx::Class(Class::Bracket(b)) => Rx::Class(Class::Bracket(norm_bracket(b))),
        Rx::Group(inner, _) => normalize(inner),
        Rx::Repeat(inner, a, b) => Rx::Repeat(Box::new(normalize(inner)), *a, *b),
        Rx::Concat(v) => {
            let mut out = Vec::new();
            for x in v {
                match normalize(x) {
                    Rx::Empty => {}
                    Rx::Concat(inner) => out.extend(inner),
                    y => out.push(y),
                }
            }
            match out.len() {
                0 => Rx::Empty,
                1 => out.pop().unwrap(),
                _ => Rx::Concat(out),
            }
        }
        Rx::Alt(v) => {
            let mut out = Vec::new();
            for x in v {
                match normalize(x) {
                    Rx::Alt(inner) => out.extend(inner),
                    y => out.push(y),
                }
            }
            if out.len() == 1 {
                out.pop().unwrap()
            } else {
                Rx::Alt(out)
            }
        }
    }
}

/// Printer self-check: the printed form parses back to the same expression (modulo grouping).
/// Err(..) is a harness error, never a violation.
pub fn printer_roundtrip(rx: &Rx) -> Result<String, String> {
    let s = print(rx);
    match parse(&s) {
        ParseOutcome::Ok(back) => {
            if normalize(&back) == normalize(rx) {
                Ok(s)
            } else {
                Err(format!(
                    "printer self-check: {:?} printed as {:?} parses back as {:?}",
                    rx, s, back
                ))
            }
        }
        other => Err(format!(
            "printer self-check: {:?} printed as {:?} gives {:?}",
            rx, s, other
        )),
    }
}

// ---------------------------------------------------------------------------------------------
// Structure helpers

pub fn nullable(rx: &Rx) -> bool {
    match rx {
        Rx::Empty => true,
        Rx::Lit(..) | Rx::Dot | Rx::Class(_) | Rx::Raw(_) => false,
        Rx::Concat(v) => v.iter().all(nullable),
        Rx::Alt(v) => v.iter().any(nullable),
        Rx::Repeat(inner, min, _) => *min == 0 || nullable(inner),
        Rx::Group(inner, _) => nullable(inner),
    }
}

pub fn size(rx: &Rx) -> usize {
    match rx {
        Rx::Empty | Rx::Lit(..) | Rx::Dot | Rx::Class(_) | Rx::Raw(_) => 1,
        Rx::Concat(v) | Rx::Alt(v) => 1 + v.iter().map(size).sum::<usize>(),
        Rx::Repeat(inner, ..) | Rx::Group(inner, _) => 1 + size(inner),
    }
}

pub fn has_empty_alternative(rx: &Rx) -> bool {
    match rx {
        Rx::Alt(v) => v.iter().any(|x| nullable(x)) || v.iter().any(has_empty_alternative),
        Rx::Concat(v) => v.iter().any(has_empty_alternative),
        Rx::Repeat(inner, ..) | Rx::Group(inner, _) => has_empty_alternative(inner),
        _ => false,
    }
}

pub fn has_counted_repeat(rx: &Rx) -> bool {
    match rx {
        Rx::Repeat(inner, min, max) => {
            !matches!((min, max), (0, Some(1)) | (0, None) | (1, None))
                || has_counted_repeat(inner)
        }
        Rx::Alt(v) | Rx::Concat(v) => v.iter().any(has_counted_repeat),
        Rx::Group(inner, _) => has_counted_repeat(inner),
        _ => false,
    }
}

pub fn collect_classes<'a>(rx: &'a Rx, out: &mut Vec<&'a Class>) {
    match rx {
        Rx::Class(c) => out.push(c),
        Rx::Alt(v) | Rx::Concat(v) => v.iter().for_each(|x| collect_classes(x, out)),
        Rx::Repeat(inner, ..) | Rx::Group(inner, _) => collect_classes(inner, out),
        _ => {}
    }
}

pub fn collect_literals(rx: &Rx, out: &mut Vec<char>) {
    match rx {
        Rx::Lit(c, _) => out.push(*c),
        Rx::Alt(v) | Rx::Concat(v) => v.iter().for_each(|x| collect_literals(x, out)),
        Rx::Repeat(inner, ..) | Rx::Group(inner, _) => collect_literals(inner, out),
        _ => {}
    }
}

// ---------------------------------------------------------------------------------------------
// Expected build verdict of a pattern string (C15), from regex-syntax's parse and a walk of the
// whole AST.

#[derive(Debug, Clone, PartialEq, Eq)]
pub enum BuildVerdict {
    /// syntax error or a construct documented as unsupported: building must fail
    MustErr(String),
    /// only literals, dot, bracketed and Perl classes, groups, alternation, concatenation, greedy
    /// repetitions: building must succeed
    MustOk,
    /// contains a Unicode class with a plausible name: the statement allows both
    Either,
}

/// Names that are certainly not Unicode properties or general categories.
pub const NONSENSE_UNICODE_NAMES: &[&str] = &["Xyz", "Foo", "NotAClass", "Qq"];
pub const NONSENSE_UNICODE_LETTERS: &[char] = &['X', 'Q', 'J', 'Y'];

#[derive(Default)]
struct Walk {
    unsupported: Option<String>,
    unicode: bool,
}

fn walk_unicode(u: &ast::ClassUnicode, w: &mut Walk) {
    match &u.kind {
        ast::ClassUnicodeKind::NamedValue { .. } => {
            w.unsupported.get_or_insert("valued Unicode class".into());
        }
        ast::ClassUnicodeKind::OneLetter(c) => {
            // the one-letter general categories are L M N P S Z C; any other letter is unknown
            // (lower case spellings count as plausible: loose matching would accept them)
            if NONSENSE_UNICODE_LETTERS.contains(c) || !"LMNPSZC".contains(c.to_ascii_uppercase()) {
                w.unsupported.get_or_insert(format!("unknown Unicode class {}", c));
            } else {
                w.unicode = true;
            }
        }
        ast::ClassUnicodeKind::Named(n) => {
            // property names and values are ASCII; a name with other characters is unknown
            if NONSENSE_UNICODE_NAMES.contains(&n.as_str()) || !n.is_ascii() {
                w.unsupported.get_or_insert(format!("unknown Unicode class {}", n));
            } else {
                w.unicode = true;
            }
        }
    }
}

fn walk_item(it: &ast::ClassSetItem, w: &mut Walk) {
    use ast::ClassSetItem as I;
    match it {
        I::Unicode(u) => walk_unicode(u, w),
        I::Bracketed(b) => walk_set(&b.kind, w),
        I::Union(u) => u.items.iter().for_each(|x| walk_item(x, w)),
        _ => {}
    }
}

fn walk_set(s: &ast::ClassSet, w: &mut Walk) {
    match s {
        ast::ClassSet::Item(i) => walk_item(i, w),
        ast::ClassSet::BinaryOp(op) => {
            walk_set(&op.lhs, w);
            walk_set(&op.rhs, w);
        }
    }
}

fn walk_ast(a: &Ast, w: &mut Walk) {
    match a {
        Ast::Empty(_) | Ast::Literal(_) | Ast::Dot(_) | Ast::ClassPerl(_) => {}
        Ast::Flags(_) => {
            w.unsupported.get_or_insert("flags".into());
        }
        Ast::Assertion(_) => {
            w.unsupported.get_or_insert("assertion".into());
        }
        Ast::ClassUnicode(u) => walk_unicode(u, w),
        Ast::ClassBracketed(b) => walk_set(&b.kind, w),
        Ast::Repetition(r) => {
            if !r.greedy {
                w.unsupported.get_or_insert("non-greedy repetition".into());
            }
            walk_ast(&r.ast, w);
        }
        Ast::Group(g) => {
            if let ast::GroupKind::NonCapturing(flags) = &g.kind {
                if flags
                    .items
                    .iter()
                    .any(|f| matches!(f.kind, ast::FlagsItemKind::Flag(_)))
                {
                    w.unsupported.get_or_insert("flagged group".into());
                }
            }
            walk_ast(&g.ast, w);
        }
        Ast::Alternation(x) => x.asts.iter().for_each(|y| walk_ast(y, w)),
        Ast::Concat(x) => x.asts.iter().for_each(|y| walk_ast(y, w)),
    }
}

pub fn build_verdict(pattern: &str) -> BuildVerdict {
    match regex_syntax::ast::parse::Parser::new().parse(pattern) {
        Err(e) => BuildVerdict::MustErr(format!("syntax error: {}", e.kind())),
        Ok(ast) => {
            let mut w = Walk::default();
            walk_ast(&ast, &mut w);
            if let Some(u) = w.unsupported {
                BuildVerdict::MustErr(u)
            } else if w.unicode {
                BuildVerdict::Either
            } else {
                BuildVerdict::MustOk
            }
        }
    }
}

/// Rough number of NFA states of an expression (every repetition counted with its copies).
pub fn est_states(rx: &Rx) -> u64 {
    match rx {
        Rx::Empty => 1,
        Rx::Lit(..) | Rx::Dot | Rx::Class(..) => 2,
        Rx::Concat(v) | Rx::Alt(v) => v.iter().map(est_states).sum::<u64>() + 1,
        Rx::Group(inner, _) => est_states(inner),
        Rx::Repeat(inner, min, max) => {
            let copies = max.unwrap_or(*min + 1).max(1) as u64;
            est_states(inner).saturating_mul(copies)
        }
        #[allow(unreachable_patterns)]
        _ => 4,
    }
}

/// Lowers repetition counts (innermost first) until the expression has at most about `budget`
/// NFA states: repetitions of repetitions of a long run multiply to automata that take minutes to
/// build, which no property is about (C17 builds its huge automata deliberately and elsewhere).
pub fn cap_states(rx: &mut Rx, budget: u64) -> u64 {
    match rx {
        Rx::Concat(v) | Rx::Alt(v) => {
            let mut total: u64 = 1;
            for x in v.iter_mut() {
                total += cap_states(x, budget);
            }
            if total > budget {
                let share = (budget / v.len().max(1) as u64).max(4);
                total = 1;
                for x in v.iter_mut() {
                    total += cap_states(x, share);
                }
            }
            total
        }
        Rx::Group(inner, _) => cap_states(inner, budget),
        Rx::Repeat(inner, min, max) => {
            let e = cap_states(inner, budget).max(1);
            let copies = max.unwrap_or(*min + 1).max(1) as u64;
            if e.saturating_mul(copies) > budget {
                let allowed = (budget / e).max(1) as u32;
                match max {
                    Some(m) => {
                        *m = (*m).min(allowed);
                        *min = (*min).min(*m);
                    }
                    None => *min = (*min).min(allowed.saturating_sub(1)),
                }
            }
            est_states(rx)
        }
        other => est_states(other),
    }
}
