//! A strict tokenizer + parser for the subset of the Graphviz DOT language that a faithful export
//! needs: digraph, attribute assignments, node statements, edge statements, subgraphs; bare and
//! quoted ids with `\"` escapes. Insensitive to whitespace, line breaks, optional `;` and `,`.

#[derive(Debug, Clone, PartialEq)]
enum Tk {
    Id(String),
    Str(String),
    LBrace,
    RBrace,
    LBrack,
    RBrack,
    Eq,
    Comma,
    Semi,
    Arrow,
}

#[derive(Debug, Clone, Default)]
pub struct Graph {
    pub id: Option<String>,
    pub attrs: Vec<(String, String)>,
    pub nodes: Vec<(String, Vec<(String, String)>)>,
    pub edges: Vec<(String, String, Vec<(String, String)>)>,
    pub subgraphs: Vec<Graph>,
}

fn tokenize(s: &str) -> Result<Vec<Tk>, String> {
    let cs: Vec<char> = s.chars().collect();
    let mut i = 0;
    let mut out = Vec::new();
    while i < cs.len() {
        let c = cs[i];
        if c.is_whitespace() {
            i += 1;
            continue;
        }
        match c {
            '{' => out.push(Tk::LBrace),
            '}' => out.push(Tk::RBrace),
            '[' => out.push(Tk::LBrack),
            ']' => out.push(Tk::RBrack),
            '=' => out.push(Tk::Eq),
            ',' => out.push(Tk::Comma),
            ';' => out.push(Tk::Semi),
            '-' if cs.get(i + 1) == Some(&'>') => {
                out.push(Tk::Arrow);
                i += 1;
            }
            '"' => {
                let mut v = String::new();
                i += 1;
                loop {
                    match cs.get(i) {
                        None => return Err("unterminated string".into()),
                        Some('"') => break,
                        Some('\\') => {
                            match cs.get(i + 1) {
                                None => return Err("unterminated string".into()),
                                Some('"') => v.push('"'),
                                Some(x) => {
                                    // every other escape sequence is kept as it is (escString)
                                    v.push('\\');
                                    v.push(*x);
                                }
                            }
                            i += 2;
                            continue;
                        }
                        Some(x) => v.push(*x),
                    }
                    i += 1;
                }
                out.push(Tk::Str(v));
            }
            '/' if cs.get(i + 1) == Some(&'/') => {
                while i < cs.len() && cs[i] != '\n' {
                    i += 1;
                }
                continue;
            }
            c if c.is_alphanumeric() || c == '_' || c == '.' || c == '-' => {
                let mut v = String::new();
                while i < cs.len() && (cs[i].is_alphanumeric() || cs[i] == '_' || cs[i] == '.') {
                    v.push(cs[i]);
                    i += 1;
                }
                if v.is_empty() {
                    return Err(format!("unexpected character {:?}", c));
                }
                out.push(Tk::Id(v));
                continue;
            }
            other => return Err(format!("unexpected character {:?}", other)),
        }
        i += 1;
    }
    Ok(out)
}

struct P {
    t: Vec<Tk>,
    i: usize,
}

impl P {
    fn peek(&self) -> Option<&Tk> {
        self.t.get(self.i)
    }
    fn next(&mut self) -> Option<Tk> {
        let t = self.t.get(self.i).cloned();
        self.i += 1;
        t
    }
    fn id(&mut self) -> Result<String, String> {
        match self.next() {
            Some(Tk::Id(s)) | Some(Tk::Str(s)) => Ok(s),
            other => Err(format!("identifier expected, found {:?}", other)),
        }
    }
    fn attr_list(&mut self) -> Result<Vec<(String, String)>, String> {
        let mut out = Vec::new();
        while self.peek() == Some(&Tk::LBrack) {
            self.next();
            loop {
                match self.peek() {
                    Some(Tk::RBrack) => {
                        self.next();
                        break;
                    }
                    Some(Tk::Comma) | Some(Tk::Semi) => {
                        self.next();
                    }
                    Some(_) => {
                        let k = self.id()?;
                        if self.next() != Some(Tk::Eq) {
                            return Err("'=' expected in attribute list".into());
                        }
                        let v = self.id()?;
                        out.push((k, v));
                    }
                    None => return Err("unterminated attribute list".into()),
                }
            }
        }
        Ok(out)
    }
    fn body(&mut self, g: &mut Graph) -> Result<(), String> {
        if self.next() != Some(Tk::LBrace) {
            return Err("'{' expected".into());
        }
        loop {
            match self.peek().cloned() {
                None => return Err("'}' missing".into()),
                Some(Tk::RBrace) => {
                    self.next();
                    return Ok(());
                }
                Some(Tk::Semi) => {
                    self.next();
                }
                Some(Tk::Id(k)) if k == "subgraph" => {
                    self.next();
                    let mut sg = Graph::default();
                    if matches!(self.peek(), Some(Tk::Id(_)) | Some(Tk::Str(_))) {
                        sg.id = Some(self.id()?);
                    }
                    self.body(&mut sg)?;
                    g.subgraphs.push(sg);
                }
                Some(Tk::Id(k)) if (k == "node" || k == "edge" || k == "graph") && self.t.get(self.i + 1) == Some(&Tk::LBrack) => {
                    self.next();
                    let _ = self.attr_list()?;
                }
                Some(Tk::Id(_)) | Some(Tk::Str(_)) => {
                    let first = self.id()?;
                    match self.peek() {
                        Some(Tk::Eq) => {
                            self.next();
                            let v = self.id()?;
                            g.attrs.push((first, v));
                        }
                        Some(Tk::Arrow) => {
                            let mut chain = vec![first];
                            while self.peek() == Some(&Tk::Arrow) {
                                self.next();
                                chain.push(self.id()?);
                            }
                            let attrs = self.attr_list()?;
                            for w in chain.windows(2) {
                                g.edges.push((w[0].clone(), w[1].clone(), attrs.clone()));
                            }
                        }
                        _ => {
                            let attrs = self.attr_list()?;
                            g.nodes.push((first, attrs));
                        }
                    }
                }
                Some(other) => return Err(format!("unexpected token {:?}", other)),
            }
        }
    }
}

pub fn parse(s: &str) -> Result<Graph, String> {
    let t = tokenize(s)?;
    let mut p = P { t, i: 0 };
    match p.next() {
        Some(Tk::Id(k)) if k == "digraph" => {}
        Some(Tk::Id(k)) if k == "strict" => {
            if p.next() != Some(Tk::Id("digraph".into())) {
                return Err("'digraph' expected".into());
            }
        }
        other => return Err(format!("'digraph' expected, found {:?}", other)),
    }
    let mut g = Graph::default();
    if matches!(p.peek(), Some(Tk::Id(_)) | Some(Tk::Str(_))) {
        g.id = Some(p.id()?);
    }
    p.body(&mut g)?;
    if p.peek().is_some() {
        return Err("text behind the closing brace of the graph".into());
    }
    Ok(g)
}

pub fn attr<'a>(attrs: &'a [(String, String)], key: &str) -> Option<&'a str> {
    attrs.iter().rev().find(|(k, _)| k == key).map(|(_, v)| v.as_str())
}
