use std::path::Path;
use vh::run::{self, RunConfig};

fn usage() -> ! {
    eprintln!("usage: vh <Cnn> quick|thorough | vh <Cnn> --replay <file> | vh selftest");
    std::process::exit(2);
}

fn main() {
    let args: Vec<String> = std::env::args().collect();
    if args.len() < 2 {
        usage();
    }
    let seed: u64 = std::env::var("VERIF_SEED")
        .ok()
        .and_then(|s| s.parse().ok())
        .unwrap_or(1);
    let threads: usize = std::env::var("VERIF_THREADS")
        .ok()
        .and_then(|s| s.parse().ok())
        .unwrap_or_else(|| std::thread::available_parallelism().map(|n| n.get()).unwrap_or(8));
    let scale: f64 = std::env::var("VERIF_SCALE")
        .ok()
        .and_then(|s| s.parse().ok())
        .unwrap_or(1.0);
    if args[1] == "list" {
        for c in vh::checks::all() {
            println!("{}", c.id());
        }
        return;
    }
    if args[1] == "c14-static-violation" && args.len() >= 3 {
        // the C14 binary does not compile because scnr::Scanner is not Send + Sync
        let msg = std::fs::read_to_string(&args[2]).unwrap_or_default();
        let tier = args.get(3).cloned().unwrap_or_else(|| "quick".into());
        let dir = Path::new(run::VERIF_DIR).join("replays").join("C14");
        let _ = std::fs::create_dir_all(&dir);
        let path = dir.join("static_send_sync.json");
        let v = serde_json::json!({
            "property": "C14", "engine": "rustc", "seed": seed, "tier": tier,
            "case": {"modes": [], "extra": {"static": "fn f<T: Send + Sync>() {} f::<scnr::Scanner>()"}},
            "what": "scnr::Scanner is not Send + Sync: the compile-time bound fails",
            "kind": "c14.static", "expected": "the C14 harness compiles", "observed": msg,
        });
        let _ = std::fs::write(&path, serde_json::to_string_pretty(&v).unwrap());
        let ev = serde_json::json!({
            "property_id": "C14", "tier": if tier == "thorough" {"thorough"} else {"quick"}, "seed": seed, "level": "exploration",
            "coverage": {"evaluations": 1, "distinct_nontrivial": 0, "rule": "static Send + Sync bound", "samples": [v["case"].clone()]},
            "wall_s": 0.0, "violations": 1,
        });
        let _ = std::fs::create_dir_all(Path::new(run::VERIF_DIR).join("evidence"));
        let _ = std::fs::write(Path::new(run::VERIF_DIR).join("evidence/C14.json"), serde_json::to_string_pretty(&ev).unwrap());
        println!("VIOLATION property=C14 replay={}", path.display());
        std::process::exit(1);
    }
    if args[1] == "gen-corpus" && args.len() >= 4 {
        // deterministic pseudo-random seed files for a fuzz campaign
        let n: usize = args[3].parse().unwrap_or(8);
        let _ = std::fs::create_dir_all(&args[2]);
        let mut x = seed.wrapping_mul(0x9E3779B97F4A7C15) | 1;
        for i in 0..n {
            let len = 64 + (i * 193) % 1500;
            let mut v = Vec::with_capacity(len);
            for _ in 0..len {
                x ^= x << 13;
                x ^= x >> 7;
                x ^= x << 17;
                v.push((x >> 32) as u8);
            }
            let _ = std::fs::write(Path::new(&args[2]).join(format!("seed{}", i)), v);
        }
        return;
    }
    if args[1] == "selftest" {
        std::process::exit(vh::selftest::run(seed));
    }
    let Some(check) = vh::checks::by_id(&args[1]) else {
        eprintln!("unknown property {}", args[1]);
        std::process::exit(2);
    };
    if args.len() >= 4 && args[2] == "--fuzz-artifact" {
        std::process::exit(run::fuzz_artifact(check.as_ref(), Path::new(&args[3]), seed));
    }
    if args.len() >= 4 && args[2] == "--add-fuzz-evidence" {
        run::add_fuzz_evidence(check.as_ref(), &args[3]);
        return;
    }
    if args.len() >= 4 && args[2] == "--replay" {
        std::process::exit(run::replay_file(check.as_ref(), Path::new(&args[3])));
    }
    if args.len() >= 3 && args[2] == "hitrate" {
        let thorough = args.get(3).map(|s| s == "thorough").unwrap_or(false);
        let cfg = RunConfig { thorough, seed, threads, scale };
        std::process::exit(run::hitrate(check.as_ref(), &cfg));
    }
    let mut tier = args.get(2).cloned().unwrap_or_else(|| "quick".to_string());
    if let Ok(t) = std::env::var("VERIF_TIER") {
        if t == "quick" || t == "thorough" {
            tier = t;
        }
    }
    let thorough = match tier.as_str() {
        "quick" => false,
        "thorough" => true,
        _ => usage(),
    };
    let cfg = RunConfig {
        thorough,
        seed,
        threads,
        scale,
    };
    let st = vh::selftest::run(seed);
    if st != 0 {
        std::process::exit(st);
    }
    std::process::exit(run::run_property(check.as_ref(), &cfg));
}
