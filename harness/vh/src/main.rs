use std::path::Path;
use vh::run::{self, RunConfig};

fn usage() -> ! {
    eprintln!("usage: vh <Cnn> quick|thorough | vh <Cnn> --replay <file> | vh selftest");
    std::process::exit(2);
}

fn main() {
    let args: Vec<String> = std::env::args().collect();
    if args.len() < 2 {
        usage();
    }
    let seed: u64 = std::env::var("VERIF_SEED")
        .ok()
        .and_then(|s| s.parse().ok())
        .unwrap_or(1);
    let threads: usize = std::env::var("VERIF_THREADS")
        .ok()
        .and_then(|s| s.parse().ok())
        .unwrap_or_else(|| std::thread::available_parallelism().map(|n| n.get()).unwrap_or(8));
    let scale: f64 = std::env::var("VERIF_SCALE")
        .ok()
        .and_then(|s| s.parse().ok())
        .unwrap_or(1.0);
    if args[1] == "list" {
        for c in vh::checks::all() {
            println!("{}", c.id());
        }
        return;
    }
    if args[1] == "selftest" {
        std::process::exit(vh::selftest::run(seed));
    }
    let Some(check) = vh::checks::by_id(&args[1]) else {
        eprintln!("unknown property {}", args[1]);
        std::process::exit(2);
    };
    if args.len() >= 4 && args[2] == "--replay" {
        std::process::exit(run::replay_file(check.as_ref(), Path::new(&args[3])));
    }
    let mut tier = args.get(2).cloned().unwrap_or_else(|| "quick".to_string());
    if let Ok(t) = std::env::var("VERIF_TIER") {
        if t == "quick" || t == "thorough" {
            tier = t;
        }
    }
    let thorough = match tier.as_str() {
        "quick" => false,
        "thorough" => true,
        _ => usage(),
    };
    let cfg = RunConfig {
        thorough,
        seed,
        threads,
        scale,
    };
    let st = vh::selftest::run(seed);
    if st != 0 {
        std::process::exit(st);
    }
    std::process::exit(run::run_property(check.as_ref(), &cfg));
}
