//! Exact language comparisons over the finite alphabet partition ("atoms") induced by character
//! classes: compiled automaton vs derivative terms of the source patterns (C02), automaton vs
//! automaton (C03, C13, C16).

use crate::model::{Preds, M};
use crate::sets::{char_of, BitSet, NSCALARS};
use scnr::verif::AutomatonDump;
use std::collections::{BTreeSet, HashMap, VecDeque};

// --- class tables ---------------------------------------------------------------------------------

/// The character classes of a built scanner, measured with the scanner's own predicate on all
/// scalar values.
pub struct ClassTable {
    pub sets: Vec<BitSet>,
}

pub fn class_table(scanner: &scnr::Scanner) -> ClassTable {
    let n = scanner.verif_class_count();
    let mut sets = Vec::with_capacity(n);
    for id in 0..n {
        let mut s = BitSet::empty();
        for i in 0..NSCALARS {
            if scanner.verif_class_matches(id, char_of(i)) == Some(true) {
                s.words[i >> 6] |= 1 << (i & 63);
            }
        }
        sets.push(s);
    }
    ClassTable { sets }
}

// --- atoms ------------------------------------------------------------------------------------------

pub struct Atoms {
    pub reps: Vec<char>,
    /// member[set index][atom index]
    pub member: Vec<Vec<bool>>,
}

fn mix(i: usize) -> u128 {
    // splitmix-style constants per set index
    let mut z = (i as u128 + 1).wrapping_mul(0x9E3779B97F4A7C15F39CC0605CEDC835);
    z ^= z >> 67;
    z = z.wrapping_mul(0xBF58476D1CE4E5B994D049BB133111EB);
    z ^= z >> 59;
    z | 1
}

/// Partition of all scalar values into classes of characters with identical membership in every
/// given set; one representative per class.
pub fn atoms(sets: &[&BitSet]) -> Atoms {
    // signature = xor of per-set constants over the sets containing the character. Dense sets are
    // handled through their complement.
    let mut base: u128 = 0;
    let mut touched = BitSet::empty();
    let mut sig: HashMap<u32, u128> = HashMap::new();
    for (k, s) in sets.iter().enumerate() {
        let c = mix(k);
        let cnt = s.count();
        let dense = cnt * 2 > NSCALARS;
        if dense {
            base ^= c;
        }
        for (wi, w) in s.words.iter().enumerate() {
            let mut w = if dense { !*w } else { *w };
            while w != 0 {
                let b = w.trailing_zeros() as usize;
                w &= w - 1;
                let i = (wi * 64 + b) as u32;
                touched.words[wi] |= 1 << b;
                *sig.entry(i).or_insert(0) ^= c;
            }
        }
    }
    // group touched characters by signature
    let mut groups: HashMap<u128, u32> = HashMap::new();
    for (i, s) in &sig {
        let e = groups.entry(*s ^ base).or_insert(*i);
        if *i < *e {
            *e = *i;
        }
    }
    // an untouched character, if any, represents the class with signature `base`
    if touched.count() < NSCALARS {
        let mut rep = None;
        for (wi, w) in touched.words.iter().enumerate() {
            if *w != !0u64 {
                rep = Some((wi * 64 + (!*w).trailing_zeros() as usize) as u32);
                break;
            }
        }
        if let Some(r) = rep {
            let e = groups.entry(base).or_insert(r);
            if r < *e {
                *e = r;
            }
        }
    }
    let mut reps: Vec<u32> = groups.into_values().collect();
    reps.sort_unstable();
    let reps: Vec<char> = reps.into_iter().map(|i| char_of(i as usize)).collect();
    let member = sets
        .iter()
        .map(|s| reps.iter().map(|c| s.get(*c)).collect())
        .collect();
    Atoms { reps, member }
}

// --- compiled automata as NFAs --------------------------------------------------------------------

pub struct Auto<'a> {
    pub dump: &'a AutomatonDump,
    pub out: Vec<Vec<(usize, usize)>>,
}

impl<'a> Auto<'a> {
    pub fn new(dump: &'a AutomatonDump) -> Result<Self, String> {
        let mut out = vec![Vec::new(); dump.states];
        if dump.accepting.len() != dump.states {
            return Err("accepting table and state table differ in length".into());
        }
        for (f, c, t) in &dump.transitions {
            if *f >= dump.states || *t >= dump.states {
                return Err(format!("transition {:?} refers to a state that does not exist", (f, c, t)));
            }
            out[*f].push((*c, *t));
        }
        Ok(Auto { dump, out })
    }
    /// successor set on an atom; `member[class][atom]` with `class_offset` added to the class id
    fn step(&self, set: &[u32], atom: usize, member: &[Vec<bool>], class_offset: usize) -> Vec<u32> {
        let mut next: BTreeSet<u32> = BTreeSet::new();
        for s in set {
            for (c, t) in &self.out[*s as usize] {
                if member[class_offset + *c][atom] {
                    next.insert(*t as u32);
                }
            }
        }
        next.into_iter().collect()
    }
    fn accepted(&self, set: &[u32]) -> BTreeSet<usize> {
        set.iter()
            .filter_map(|s| self.dump.accepting[*s as usize])
            .collect()
    }
    pub fn max_class(&self) -> Option<usize> {
        self.dump.transitions.iter().map(|t| t.1).max()
    }
}

#[derive(Debug, Clone)]
pub struct Difference {
    pub witness: String,
    pub left: BTreeSet<usize>,
    pub right: BTreeSet<usize>,
}

pub enum Verdict {
    Equal { product_states: usize },
    Differ(Difference),
    Capped { product_states: usize },
}

fn witness_of<K: Clone + std::hash::Hash + Eq>(
    parents: &HashMap<K, Option<(K, usize)>>,
    key: &K,
    reps: &[char],
) -> String {
    let mut atoms_rev = Vec::new();
    let mut cur = key.clone();
    while let Some(Some((p, a))) = parents.get(&cur) {
        atoms_rev.push(*a);
        cur = p.clone();
    }
    atoms_rev.iter().rev().map(|a| reps[*a]).collect()
}

/// Automaton vs automaton: equal accepted token-type sets after every string (including the empty
/// one). `off_a`/`off_b` are the offsets of the two class tables inside `atoms.member`.
pub fn compare_automata(
    a: &Auto,
    off_a: usize,
    b: &Auto,
    off_b: usize,
    atoms: &Atoms,
    cap: usize,
    boolean_acceptance: bool,
) -> Verdict {
    type K = (Vec<u32>, Vec<u32>);
    let start: K = (vec![0], vec![0]);
    let mut parents: HashMap<K, Option<(K, usize)>> = HashMap::new();
    parents.insert(start.clone(), None);
    let mut queue = VecDeque::new();
    queue.push_back(start);
    while let Some(k) = queue.pop_front() {
        let (mut la, mut lb) = (a.accepted(&k.0), b.accepted(&k.1));
        if boolean_acceptance {
            la = if la.is_empty() { la } else { BTreeSet::from([0]) };
            lb = if lb.is_empty() { lb } else { BTreeSet::from([0]) };
        }
        if la != lb {
            return Verdict::Differ(Difference {
                witness: witness_of(&parents, &k, &atoms.reps),
                left: la,
                right: lb,
            });
        }
        if k.0.is_empty() && k.1.is_empty() {
            continue;
        }
        for at in 0..atoms.reps.len() {
            let nk: K = (
                a.step(&k.0, at, &atoms.member, off_a),
                b.step(&k.1, at, &atoms.member, off_b),
            );
            if !parents.contains_key(&nk) {
                parents.insert(nk.clone(), Some((k.clone(), at)));
                if parents.len() > cap {
                    return Verdict::Capped {
                        product_states: parents.len(),
                    };
                }
                queue.push_back(nk);
            }
        }
    }
    Verdict::Equal {
        product_states: parents.len(),
    }
}

// --- derivative terms -------------------------------------------------------------------------------

pub type TId = u32;

#[derive(Debug, Clone, PartialEq, Eq, Hash)]
enum T {
    Null,
    Eps,
    Sym(usize),
    Cat(TId, TId),
    Alt(Vec<TId>),
    Rep(TId, u32, Option<u32>),
}

pub struct Terms {
    table: Vec<T>,
    index: HashMap<T, TId>,
    nullable: Vec<bool>,
    deriv: HashMap<(TId, usize), TId>,
}

pub const T_NULL: TId = 0;
pub const T_EPS: TId = 1;

impl Default for Terms {
    fn default() -> Self {
        Self::new()
    }
}

impl Terms {
    pub fn new() -> Self {
        let mut t = Terms {
            table: Vec::new(),
            index: HashMap::new(),
            nullable: Vec::new(),
            deriv: HashMap::new(),
        };
        t.intern(T::Null);
        t.intern(T::Eps);
        t
    }
    fn intern(&mut self, t: T) -> TId {
        if let Some(i) = self.index.get(&t) {
            return *i;
        }
        let n = match &t {
            T::Null => false,
            T::Eps => true,
            T::Sym(_) => false,
            T::Cat(a, b) => self.nullable[*a as usize] && self.nullable[*b as usize],
            T::Alt(v) => v.iter().any(|x| self.nullable[*x as usize]),
            T::Rep(a, min, _) => *min == 0 || self.nullable[*a as usize],
        };
        let id = self.table.len() as TId;
        self.index.insert(t.clone(), id);
        self.table.push(t);
        self.nullable.push(n);
        id
    }
    pub fn is_nullable(&self, t: TId) -> bool {
        self.nullable[t as usize]
    }
    pub fn len(&self) -> usize {
        self.table.len()
    }
    pub fn is_empty(&self) -> bool {
        self.table.is_empty()
    }
    fn cat(&mut self, a: TId, b: TId) -> TId {
        if a == T_NULL || b == T_NULL {
            return T_NULL;
        }
        if a == T_EPS {
            return b;
        }
        if b == T_EPS {
            return a;
        }
        if let T::Cat(x, y) = self.table[a as usize].clone() {
            let r = self.cat(y, b);
            return self.cat(x, r);
        }
        self.intern(T::Cat(a, b))
    }
    fn alt(&mut self, items: Vec<TId>) -> TId {
        let mut flat: BTreeSet<TId> = BTreeSet::new();
        for i in items {
            match &self.table[i as usize] {
                T::Null => {}
                T::Alt(v) => flat.extend(v.iter().copied()),
                _ => {
                    flat.insert(i);
                }
            }
        }
        match flat.len() {
            0 => T_NULL,
            1 => *flat.iter().next().unwrap(),
            _ => self.intern(T::Alt(flat.into_iter().collect())),
        }
    }
    fn rep(&mut self, a: TId, min: u32, max: Option<u32>) -> TId {
        if max == Some(0) {
            return T_EPS;
        }
        if a == T_EPS {
            return T_EPS;
        }
        if a == T_NULL {
            return if min == 0 { T_EPS } else { T_NULL };
        }
        if min == 1 && max == Some(1) {
            return a;
        }
        self.intern(T::Rep(a, min, max))
    }
    pub fn from_m(&mut self, m: &M) -> TId {
        match m {
            M::Empty => T_EPS,
            M::Char(p) => self.intern(T::Sym(*p)),
            M::Concat(v) => {
                let ids: Vec<TId> = v.iter().map(|x| self.from_m(x)).collect();
                let mut acc = T_EPS;
                for i in ids.into_iter().rev() {
                    acc = self.cat(i, acc);
                }
                acc
            }
            M::Alt(v) => {
                let ids: Vec<TId> = v.iter().map(|x| self.from_m(x)).collect();
                self.alt(ids)
            }
            M::Repeat(inner, min, max) => {
                if let Some(mx) = max {
                    if *mx < *min {
                        return T_NULL;
                    }
                }
                let i = self.from_m(inner);
                self.rep(i, *min, *max)
            }
        }
    }
    /// Brzozowski derivative with respect to an atom; `pred_member[pred][atom]`.
    pub fn derive(&mut self, t: TId, atom: usize, pred_member: &[Vec<bool>], pred_offset: usize) -> TId {
        if let Some(r) = self.deriv.get(&(t, atom)) {
            return *r;
        }
        let r = match self.table[t as usize].clone() {
            T::Null | T::Eps => T_NULL,
            T::Sym(p) => {
                if pred_member[pred_offset + p][atom] {
                    T_EPS
                } else {
                    T_NULL
                }
            }
            T::Cat(a, b) => {
                let da = self.derive(a, atom, pred_member, pred_offset);
                let left = self.cat(da, b);
                if self.nullable[a as usize] {
                    let db = self.derive(b, atom, pred_member, pred_offset);
                    self.alt(vec![left, db])
                } else {
                    left
                }
            }
            T::Alt(v) => {
                let ds: Vec<TId> = v
                    .iter()
                    .map(|x| self.derive(*x, atom, pred_member, pred_offset))
                    .collect();
                self.alt(ds)
            }
            T::Rep(a, min, max) => {
                let da = self.derive(a, atom, pred_member, pred_offset);
                let rest = self.rep(a, min.max(1) - 1, max.map(|m| m - 1));
                self.cat(da, rest)
            }
        };
        self.deriv.insert((t, atom), r);
        r
    }
}

/// Compiled automaton vs the patterns it was compiled from: after every non-empty string the set
/// of accepted token types must equal the set of token types whose pattern matches the string.
/// `pats` = (token type, term). `class_off` / `pred_off`: offsets inside `atoms.member`.
pub fn compare_with_patterns(
    a: &Auto,
    class_off: usize,
    terms: &mut Terms,
    pats: &[(usize, TId)],
    pred_off: usize,
    atoms: &Atoms,
    cap: usize,
    boolean_acceptance: bool,
) -> Verdict {
    type K = (Vec<u32>, Vec<TId>);
    let start: K = (vec![0], pats.iter().map(|p| p.1).collect());
    let mut parents: HashMap<K, Option<(K, usize)>> = HashMap::new();
    parents.insert(start.clone(), None);
    let mut queue = VecDeque::new();
    queue.push_back(start.clone());
    while let Some(k) = queue.pop_front() {
        if k != start {
            let mut la = a.accepted(&k.0);
            let mut lb: BTreeSet<usize> = pats
                .iter()
                .zip(k.1.iter())
                .filter(|(_, t)| terms.is_nullable(**t))
                .map(|(p, _)| p.0)
                .collect();
            if boolean_acceptance {
                la = if la.is_empty() { la } else { BTreeSet::from([0]) };
                lb = if lb.is_empty() { lb } else { BTreeSet::from([0]) };
            }
            if la != lb {
                return Verdict::Differ(Difference {
                    witness: witness_of(&parents, &k, &atoms.reps),
                    left: la,
                    right: lb,
                });
            }
            if k.0.is_empty() && k.1.iter().all(|t| *t == T_NULL) {
                continue;
            }
        }
        for at in 0..atoms.reps.len() {
            let nk: K = (
                a.step(&k.0, at, &atoms.member, class_off),
                k.1.iter()
                    .map(|t| terms.derive(*t, at, &atoms.member, pred_off))
                    .collect(),
            );
            if !parents.contains_key(&nk) {
                parents.insert(nk.clone(), Some((k.clone(), at)));
                if parents.len() > cap {
                    return Verdict::Capped {
                        product_states: parents.len(),
                    };
                }
                queue.push_back(nk);
            }
        }
    }
    Verdict::Equal {
        product_states: parents.len(),
    }
}

/// Direct simulation of a compiled automaton on a concrete string with the scanner's own class
/// predicate (used to confirm a witness independently of the atom computation).
pub fn simulate(a: &Auto, scanner: &scnr::Scanner, s: &str) -> BTreeSet<usize> {
    let mut set: Vec<u32> = vec![0];
    for c in s.chars() {
        let mut next: BTreeSet<u32> = BTreeSet::new();
        for st in &set {
            for (cc, t) in &a.out[*st as usize] {
                if scanner.verif_class_matches(*cc, c) == Some(true) {
                    next.insert(*t as u32);
                }
            }
        }
        set = next.into_iter().collect();
    }
    a.accepted(&set)
}

pub fn preds_bitsets(preds: &Preds) -> Vec<BitSet> {
    (0..preds.len()).map(|i| preds.bitset(i)).collect()
}

/// Exact behavioural equivalence of two built scanners: same number of modes, same mode names and
/// transitions, and per mode and per lookahead language-equivalent automata (same token types,
/// same lookahead polarity). Equivalence rather than equality of dumps, so that a harmless change
/// in state numbering is not an alarm. Ok(product states explored) or Err(description).
pub fn scanners_equivalent(a: &scnr::Scanner, b: &scnr::Scanner) -> Result<usize, String> {
    let (da, db) = (a.verif_dump(), b.verif_dump());
    if da.len() != db.len() {
        return Err(format!("{} modes vs {} modes", da.len(), db.len()));
    }
    let (ca, cb) = (class_table(a), class_table(b));
    let mut all: Vec<&BitSet> = ca.sets.iter().collect();
    all.extend(cb.sets.iter());
    let at = atoms(&all);
    let (off_a, off_b) = (0, ca.sets.len());
    let mut states = 0;
    let check_ids = |d: &AutomatonDump, n: usize| d.transitions.iter().all(|t| t.1 < n);
    for (mi, (ma, mb)) in da.iter().zip(db.iter()).enumerate() {
        if ma.name != mb.name {
            return Err(format!("mode {}: names {:?} vs {:?}", mi, ma.name, mb.name));
        }
        if ma.transitions != mb.transitions {
            return Err(format!(
                "mode {}: transitions {:?} vs {:?}",
                mi, ma.transitions, mb.transitions
            ));
        }
        if ma.automaton.token_types != mb.automaton.token_types {
            return Err(format!(
                "mode {}: token types in priority order {:?} vs {:?}",
                mi, ma.automaton.token_types, mb.automaton.token_types
            ));
        }
        let mut pairs: Vec<(&AutomatonDump, &AutomatonDump, String, bool)> =
            vec![(&ma.automaton, &mb.automaton, format!("mode {}", mi), false)];
        if ma.automaton.lookaheads.len() != mb.automaton.lookaheads.len() {
            return Err(format!("mode {}: different number of lookaheads", mi));
        }
        for (la, lb) in ma.automaton.lookaheads.iter().zip(mb.automaton.lookaheads.iter()) {
            if la.token_type != lb.token_type || la.is_positive != lb.is_positive {
                return Err(format!(
                    "mode {}: lookahead (token type {}, positive {}) vs (token type {}, positive {})",
                    mi, la.token_type, la.is_positive, lb.token_type, lb.is_positive
                ));
            }
            pairs.push((
                &la.automaton,
                &lb.automaton,
                format!("lookahead of token type {} in mode {}", la.token_type, mi),
                true,
            ));
        }
        for (x, y, what, boolean) in pairs {
            if !check_ids(x, ca.sets.len()) || !check_ids(y, cb.sets.len()) {
                return Err(format!("{}: unregistered class id", what));
            }
            let (ax, ay) = (Auto::new(x)?, Auto::new(y)?);
            match compare_automata(&ax, off_a, &ay, off_b, &at, 200_000, boolean) {
                Verdict::Equal { product_states } => states += product_states,
                Verdict::Capped { .. } => {}
                Verdict::Differ(d) => {
                    return Err(format!(
                        "{}: on {:?} one scanner accepts token types {:?}, the other {:?}",
                        what, d.witness, d.left, d.right
                    ))
                }
            }
        }
    }
    Ok(states)
}
