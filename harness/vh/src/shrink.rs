//! Structural shrinker: single simplification steps on a decoded case.

use crate::case::*;
use crate::rx::*;

fn bracket_shrinks(b: &Bracket) -> Vec<Bracket> {
    let mut out = Vec::new();
    if b.negated {
        out.push(Bracket {
            negated: false,
            set: b.set.clone(),
        });
    }
    for s in set_shrinks(&b.set) {
        out.push(Bracket {
            negated: b.negated,
            set: s,
        });
    }
    // a single nested bracket replaces its parent
    if let ClassSet::Items(v) = &b.set {
        if v.len() == 1 {
            if let ClassItem::Bracket(inner) = &v[0] {
                if !b.negated {
                    out.push((**inner).clone());
                }
            }
        }
    }
    out
}

fn item_shrinks(it: &ClassItem) -> Vec<ClassItem> {
    match it {
        ClassItem::Lit(c, f) => {
            let mut v = vec![];
            if *f != LitForm::Verbatim {
                v.push(ClassItem::Lit(*c, LitForm::Verbatim));
            }
            if *c != 'a' {
                v.push(ClassItem::Lit('a', LitForm::Verbatim));
            }
            v
        }
        ClassItem::Range(a, b) => {
            let mut v = vec![ClassItem::Lit(*a, LitForm::UBrace)];
            if a != b {
                v.push(ClassItem::Range(*a, *a));
                v.push(ClassItem::Range(*b, *b));
            }
            v
        }
        ClassItem::Named(n, neg) => {
            let mut v = vec![ClassItem::Lit('a', LitForm::Verbatim)];
            if *neg {
                v.push(ClassItem::Named(n.clone(), false));
            }
            v
        }
        ClassItem::Bracket(b) => bracket_shrinks(b)
            .into_iter()
            .map(|x| ClassItem::Bracket(Box::new(x)))
            .collect(),
    }
}

fn set_shrinks(s: &ClassSet) -> Vec<ClassSet> {
    let mut out = Vec::new();
    match s {
        ClassSet::Items(v) => {
            if v.len() > 1 {
                for i in 0..v.len() {
                    let mut w = v.clone();
                    w.remove(i);
                    out.push(ClassSet::Items(w));
                }
            }
            for i in 0..v.len() {
                for r in item_shrinks(&v[i]) {
                    let mut w = v.clone();
                    w[i] = r;
                    out.push(ClassSet::Items(w));
                }
            }
        }
        ClassSet::BinOp(op, l, r) => {
            out.push((**l).clone());
            out.push((**r).clone());
            for x in set_shrinks(l) {
                out.push(ClassSet::BinOp(*op, Box::new(x), r.clone()));
            }
            for x in set_shrinks(r) {
                // the right operand must stay an item list
                if matches!(x, ClassSet::Items(_)) {
                    out.push(ClassSet::BinOp(*op, l.clone(), Box::new(x)));
                }
            }
        }
    }
    out
}

pub fn rx_shrinks(rx: &Rx) -> Vec<Rx> {
    let mut out = Vec::new();
    match rx {
        Rx::Empty | Rx::Raw(_) => {}
        Rx::Dot => out.push(Rx::Lit('a', LitForm::Verbatim)),
        Rx::Lit(c, f) => {
            if *f != LitForm::Verbatim {
                out.push(Rx::Lit(*c, LitForm::Verbatim));
            }
            if *c != 'a' {
                out.push(Rx::Lit('a', LitForm::Verbatim));
            }
        }
        Rx::Class(c) => {
            out.push(Rx::Lit('a', LitForm::Verbatim));
            match c {
                Class::Named(n, true) => out.push(Rx::Class(Class::Named(n.clone(), false))),
                Class::Named(..) => {}
                Class::Bracket(b) => {
                    for x in bracket_shrinks(b) {
                        out.push(Rx::Class(Class::Bracket(x)));
                    }
                }
            }
        }
        Rx::Concat(v) | Rx::Alt(v) => {
            let is_concat = matches!(rx, Rx::Concat(_));
            let mk = |w: Vec<Rx>| if is_concat { Rx::Concat(w) } else { Rx::Alt(w) };
            for x in v {
                out.push(x.clone());
            }
            if v.len() > 2 {
                for i in 0..v.len() {
                    let mut w = v.clone();
                    w.remove(i);
                    out.push(mk(w));
                }
            }
            for i in 0..v.len() {
                for r in rx_shrinks(&v[i]) {
                    let mut w = v.clone();
                    w[i] = r;
                    out.push(mk(w));
                }
            }
        }
        Rx::Repeat(inner, a, b) => {
            out.push((**inner).clone());
            out.push(Rx::Empty);
            if *a > 0 {
                out.push(Rx::Repeat(inner.clone(), a - 1, b.map(|x| x.max(1) - 1).map(|x| x.max(a - 1))));
            }
            if let Some(bb) = b {
                if *bb > *a {
                    out.push(Rx::Repeat(inner.clone(), *a, Some(bb - 1)));
                }
            }
            for r in rx_shrinks(inner) {
                out.push(Rx::Repeat(Box::new(r), *a, *b));
            }
        }
        Rx::Group(inner, k) => {
            out.push((**inner).clone());
            for r in rx_shrinks(inner) {
                out.push(Rx::Group(Box::new(r), *k));
            }
        }
    }
    out
}

fn fix_add_patterns(c: &mut Case) {
    if c.add_patterns {
        for (i, p) in c.modes[0].pats.iter_mut().enumerate() {
            p.tt = i;
        }
    }
}

fn op_refs_ok(_c: &Case) -> bool {
    true
}

fn map_ops(ops: &[Op], f: &dyn Fn(&Op) -> Option<Op>) -> Vec<Op> {
    ops.iter().filter_map(|o| f(o)).collect()
}

fn remap_mode_in_op(op: &Op, dropped: usize) -> Option<Op> {
    let fix = |m: usize| -> usize {
        if m == dropped {
            0
        } else if m > dropped {
            m - 1
        } else {
            m
        }
    };
    Some(match op {
        Op::SetMode { m } => Op::SetMode { m: fix(*m) },
        Op::ScannerSetMode { s, m } => Op::ScannerSetMode { s: *s, m: fix(*m) },
        Op::On { it, inner } => Op::On {
            it: *it,
            inner: Box::new(remap_mode_in_op(inner, dropped)?),
        },
        other => other.clone(),
    })
}

pub fn candidates(c: &Case) -> Vec<Case> {
    let mut out: Vec<Case> = Vec::new();

    // drop a mode (never mode 0)
    for mi in (1..c.modes.len()).rev() {
        let mut n = c.clone();
        n.modes.remove(mi);
        for m in n.modes.iter_mut() {
            m.transitions.retain(|(_, t)| *t != mi);
            for t in m.transitions.iter_mut() {
                if t.1 > mi {
                    t.1 -= 1;
                }
            }
        }
        n.ops = map_ops(&n.ops, &|o| remap_mode_in_op(o, mi));
        out.push(n);
    }
    // drop ops (halves first, then singles)
    if c.ops.len() > 3 {
        let h = c.ops.len() / 2;
        let mut n = c.clone();
        n.ops.truncate(h);
        out.push(n);
        let mut n = c.clone();
        n.ops.drain(0..h);
        out.push(n);
    }
    for i in (0..c.ops.len()).rev() {
        let mut n = c.clone();
        n.ops.remove(i);
        out.push(n);
    }
    // drop a pattern
    for mi in 0..c.modes.len() {
        if c.modes[mi].pats.len() > 1 {
            for pi in (0..c.modes[mi].pats.len()).rev() {
                let mut n = c.clone();
                n.modes[mi].pats.remove(pi);
                fix_add_patterns(&mut n);
                out.push(n);
            }
        }
    }
    // drop a lookahead / a transition
    for mi in 0..c.modes.len() {
        for pi in 0..c.modes[mi].pats.len() {
            if c.modes[mi].pats[pi].la.is_some() {
                let mut n = c.clone();
                n.modes[mi].pats[pi].la = None;
                out.push(n);
            }
        }
        for ti in 0..c.modes[mi].transitions.len() {
            let mut n = c.clone();
            n.modes[mi].transitions.remove(ti);
            out.push(n);
        }
    }
    // drop an input (keep at least one)
    if c.inputs.len() > 1 {
        for i in (1..c.inputs.len()).rev() {
            let refs = c.ops.iter().any(|o| matches!(o, Op::Create { inp, .. } if *inp >= i));
            if !refs {
                let mut n = c.clone();
                n.inputs.remove(i);
                out.push(n);
            }
        }
    }
    // shorten inputs
    let shrink_inputs = c.extra.get("all_scalars").is_none();
    for ii in 0..if shrink_inputs { c.inputs.len() } else { 0 } {
        let chars: Vec<char> = c.inputs[ii].chars().collect();
        if chars.len() > 4 {
            let h = chars.len() / 2;
            for keep in [&chars[..h], &chars[h..]] {
                let mut n = c.clone();
                n.inputs[ii] = keep.iter().collect();
                out.push(n);
            }
            // delete blocks of decreasing size (delta debugging) before single characters
            let mut size = chars.len() / 4;
            while size >= 2 {
                let mut start = 0;
                while start < chars.len() {
                    let end = (start + size).min(chars.len());
                    let mut w: Vec<char> = chars[..start].to_vec();
                    w.extend_from_slice(&chars[end..]);
                    let mut n = c.clone();
                    n.inputs[ii] = w.into_iter().collect();
                    out.push(n);
                    start += size;
                }
                size /= 2;
            }
        }
        for i in (0..chars.len()).rev() {
            let mut w = chars.clone();
            w.remove(i);
            let mut n = c.clone();
            n.inputs[ii] = w.into_iter().collect();
            out.push(n);
        }
    }
    // offsets
    if let Some(o) = c.start_offset {
        let mut n = c.clone();
        n.start_offset = None;
        n.offset_after = None;
        out.push(n);
        if o > 0 {
            let mut n = c.clone();
            n.start_offset = Some(o - 1);
            out.push(n);
        }
        if c.offset_after.is_some() {
            let mut n = c.clone();
            n.offset_after = None;
            out.push(n);
        }
    }
    // simplify expressions
    for mi in 0..c.modes.len() {
        for pi in 0..c.modes[mi].pats.len() {
            for r in rx_shrinks(&c.modes[mi].pats[pi].rx) {
                let mut n = c.clone();
                n.modes[mi].pats[pi].rx = r;
                out.push(n);
            }
            if let Some(la) = &c.modes[mi].pats[pi].la {
                for r in rx_shrinks(&la.rx) {
                    if nullable(&r) {
                        continue;
                    }
                    let mut n = c.clone();
                    n.modes[mi].pats[pi].la.as_mut().unwrap().rx = r;
                    out.push(n);
                }
            }
        }
    }
    // lower token types (consistently in patterns and transitions of all modes)
    if !c.add_patterns {
        let mut all: Vec<usize> = c
            .modes
            .iter()
            .flat_map(|m| {
                m.pats
                    .iter()
                    .map(|p| p.tt)
                    .chain(m.transitions.iter().map(|t| t.0))
            })
            .collect();
        all.sort_unstable();
        all.dedup();
        for (rank, tt) in all.iter().enumerate() {
            if *tt != rank && !all.contains(&rank) {
                let mut n = c.clone();
                for m in n.modes.iter_mut() {
                    for p in m.pats.iter_mut() {
                        if p.tt == *tt {
                            p.tt = rank;
                        }
                    }
                    for t in m.transitions.iter_mut() {
                        if t.0 == *tt {
                            t.0 = rank;
                        }
                    }
                    m.transitions.sort_unstable();
                }
                out.push(n);
            }
        }
    }
    // simplify input characters
    for ii in 0..if shrink_inputs { c.inputs.len() } else { 0 } {
        let chars: Vec<char> = c.inputs[ii].chars().collect();
        for i in 0..chars.len() {
            if chars[i] != 'a' {
                let mut w = chars.clone();
                w[i] = 'a';
                let mut n = c.clone();
                n.inputs[ii] = w.into_iter().collect();
                out.push(n);
            }
        }
    }
    // simplify op arguments
    for i in 0..c.ops.len() {
        let simpler: Vec<Op> = match &c.ops[i] {
            Op::PeekN { n } if *n > 8 => vec![Op::PeekN { n: 1 }, Op::PeekN { n: n / 2 }],
            Op::PeekN { n } if *n > 0 => vec![Op::PeekN { n: n - 1 }],
            Op::SetOffset { o } if *o > 0 => vec![Op::SetOffset { o: 0 }, Op::SetOffset { o: o - 1 }],
            Op::WithOffset { o } if *o > 0 => vec![Op::WithOffset { o: 0 }, Op::WithOffset { o: o - 1 }],
            Op::RebaseWithOffset { o } if *o > 0 => vec![Op::RebaseWithOffset { o: 0 }, Op::RebaseWithOffset { o: o - 1 }, Op::SetOffset { o: *o }],
            Op::Position { o } if *o > 0 => vec![Op::Position { o: o - 1 }],
            Op::PeekAdvance { n, k } if *n > 1 => vec![Op::PeekAdvance {
                n: n - 1,
                k: (*k).min(n - 2),
            }],
            Op::SetMode { m } if *m > 0 => vec![Op::SetMode { m: 0 }],
            _ => vec![],
        };
        for s in simpler {
            let mut n = c.clone();
            n.ops[i] = s;
            out.push(n);
        }
    }
    out.retain(op_refs_ok);
    out
}
