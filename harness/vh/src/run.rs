//! Runner: seeded proptest drivers on worker threads, statistics, shrinking, replay files,
//! evidence files, known findings, exit codes.

use crate::case::Case;
use crate::dec::Dec;
use proptest::strategy::{Strategy, ValueTree};
use proptest::test_runner::{Config, RngAlgorithm, RngSeed, TestCaseError, TestError, TestRunner};
use serde_json::{json, Value};
use std::collections::{BTreeMap, HashSet};
use std::hash::{Hash, Hasher};
use std::path::{Path, PathBuf};
use std::sync::atomic::{AtomicBool, AtomicU64, Ordering};
use std::sync::{Arc, Mutex};
use std::time::Instant;

pub const VERIF_DIR: &str = "/verif";

pub fn harness_error(msg: &str) -> ! {
    eprintln!("HARNESS ERROR: {}", msg);
    std::process::exit(2);
}

// --- trace logging pass -------------------------------------------------------------------------

/// Logger that formats every record into the void: with the maximum level at Trace the arguments
/// of scnr's `trace!` / `debug!` calls are evaluated and formatted as they are under
/// `RUST_LOG=trace`, without output.
struct SinkLogger;
impl log::Log for SinkLogger {
    fn enabled(&self, _: &log::Metadata) -> bool {
        true
    }
    fn log(&self, record: &log::Record) {
        struct Null;
        impl std::fmt::Write for Null {
            fn write_str(&mut self, _: &str) -> std::fmt::Result {
                Ok(())
            }
        }
        let _ = std::fmt::write(&mut Null, *record.args());
    }
    fn flush(&self) {}
}
static SINK: SinkLogger = SinkLogger;
static TRACE_ON: AtomicBool = AtomicBool::new(false);

/// Switches the process-wide log level between Off and Trace (sink logger).
pub fn set_trace_logging(on: bool) {
    static INIT: std::sync::Once = std::sync::Once::new();
    INIT.call_once(|| {
        let _ = log::set_logger(&SINK);
    });
    log::set_max_level(if on { log::LevelFilter::Trace } else { log::LevelFilter::Off });
    TRACE_ON.store(on, Ordering::Relaxed);
}
pub fn trace_logging() -> bool {
    TRACE_ON.load(Ordering::Relaxed)
}

// --- watchdog for fixed cases ---------------------------------------------------------------------

static FIXED_WATCH: Mutex<Vec<(std::thread::ThreadId, Instant, String)>> = Mutex::new(Vec::new());

/// Runs `f` (the check of one fixed case) registered with the fixed-case watchdog.
fn watched<T>(case: &Case, f: impl FnOnce() -> T) -> T {
    let me = std::thread::current().id();
    FIXED_WATCH.lock().unwrap().push((me, Instant::now(), case.to_json().to_string()));
    let r = f();
    FIXED_WATCH.lock().unwrap().retain(|e| e.0 != me);
    r
}

/// Detached monitor: a fixed case that runs longer than the check's limit ends the process - as a
/// violation where a stuck call violates the property (C07, C14), as inconclusive (exit 2) otherwise.
fn start_fixed_watchdog(check: &dyn Check, cfg: &RunConfig) {
    let (id, seed, tier) = (check.id().to_string(), cfg.seed, tier_name(cfg.thorough));
    let (limit, is_violation) = (check.fixed_case_timeout_s(), check.hang_is_violation());
    std::thread::spawn(move || loop {
        std::thread::sleep(std::time::Duration::from_millis(500));
        let stuck = FIXED_WATCH.lock().unwrap().iter().find(|e| e.1.elapsed().as_secs() >= limit).map(|e| e.2.clone());
        if let Some(json) = stuck {
            if is_violation {
                let case = serde_json::from_str::<Value>(&json).ok().and_then(|v| Case::from_json(&v).ok()).unwrap_or_default();
                let f = Failure::new("hang", format!("a fixed case did not finish within {} s (trace logging: {})", limit, trace_logging()));
                let path = write_replay(&id, "fixed", seed, tier, &case, &f, None);
                eprintln!("violation of {}: {}", id, f.what);
                println!("VIOLATION property={} replay={}", id, path.display());
                std::process::exit(1);
            } else {
                eprintln!("INCONCLUSIVE: watchdog fired on fixed case {}", json.chars().take(400).collect::<String>());
                std::process::exit(2);
            }
        }
    });
}

// --- panic capture ----------------------------------------------------------------------------

thread_local! {
    static LAST_PANIC: std::cell::RefCell<Option<String>> = const { std::cell::RefCell::new(None) };
}

pub fn install_panic_hook() {
    std::panic::set_hook(Box::new(|info| {
        let loc = info
            .location()
            .map(|l| format!("{}:{}", l.file(), l.line()))
            .unwrap_or_default();
        let msg = if let Some(s) = info.payload().downcast_ref::<&str>() {
            s.to_string()
        } else if let Some(s) = info.payload().downcast_ref::<String>() {
            s.clone()
        } else {
            "<non-string panic>".to_string()
        };
        let mut short: String = msg.chars().take(300).collect();
        if short.len() < msg.len() {
            short.push('…');
        }
        LAST_PANIC.with(|p| *p.borrow_mut() = Some(format!("{} at {}", short.trim(), loc)));
    }));
}

/// Runs `f`, turning a panic into Err(description).
pub fn guard<T>(f: impl FnOnce() -> T) -> Result<T, String> {
    match std::panic::catch_unwind(std::panic::AssertUnwindSafe(f)) {
        Ok(v) => Ok(v),
        Err(_) => Err(LAST_PANIC
            .with(|p| p.borrow_mut().take())
            .unwrap_or_else(|| "panic".to_string())),
    }
}

// --- outcome of one case ----------------------------------------------------------------------

#[derive(Debug, Clone)]
pub struct Failure {
    pub what: String,
    pub expected: String,
    pub observed: String,
    pub panic: Option<String>,
    /// key used to match known findings and to keep shrinking on the same defect
    pub kind: String,
}

impl Failure {
    pub fn new(kind: &str, what: impl Into<String>) -> Self {
        Failure {
            what: what.into(),
            expected: String::new(),
            observed: String::new(),
            panic: None,
            kind: kind.to_string(),
        }
    }
    pub fn exp_obs(mut self, e: impl std::fmt::Debug, o: impl std::fmt::Debug) -> Self {
        self.expected = format!("{:?}", e);
        self.observed = format!("{:?}", o);
        self
    }
    pub fn panic(kind: &str, what: impl Into<String>, p: String) -> Self {
        let mut f = Failure::new(kind, what);
        f.panic = Some(p);
        f
    }
}

#[derive(Debug, Clone, Default)]
pub struct CaseStats {
    pub nontrivial: bool,
    pub counters: Vec<(&'static str, u64)>,
    /// the case could not be judged (e.g. resource cap); counted, never a violation
    pub inconclusive: bool,
}

impl CaseStats {
    pub fn count(&mut self, name: &'static str) {
        self.add(name, 1);
    }
    pub fn add(&mut self, name: &'static str, n: u64) {
        if let Some(e) = self.counters.iter_mut().find(|(k, _)| *k == name) {
            e.1 += n;
        } else {
            self.counters.push((name, n));
        }
    }
    pub fn flag(&mut self, name: &'static str, on: bool) {
        if on {
            self.count(name);
        }
    }
}

pub type CheckResult = Result<CaseStats, Failure>;

/// A property check.
pub trait Check: Sync + Send {
    fn id(&self) -> &'static str;
    fn level(&self) -> &'static str {
        "exploration"
    }
    fn rule(&self) -> &'static str;
    fn assumptions(&self) -> Vec<String> {
        vec![]
    }
    /// number of generated cases for the tier
    fn cases(&self, thorough: bool) -> usize;
    fn generate(&self, d: &mut Dec, thorough: bool) -> Case;
    fn check(&self, case: &Case) -> CheckResult;
    /// deterministic extra cases run before the generated ones (bounded-exhaustive sets, corpora)
    fn fixed_cases(&self, _thorough: bool) -> Vec<Case> {
        vec![]
    }
    /// extra keys for coverage
    fn extra_coverage(&self, _agg: &Aggregate) -> Value {
        Value::Null
    }
    /// check-specific shrink steps on the `extra` payload
    fn extra_shrinks(&self, _case: &Case) -> Vec<Case> {
        vec![]
    }
    /// true if a failing case may pass when executed again (thread schedules): the first observed
    /// failure is then reported even if the shrunk case does not fail again
    fn nondeterministic(&self) -> bool {
        false
    }
    /// true if a failing fixed case is reported at once (replay, evidence, exit 1) instead of after
    /// the other fixed cases running in parallel have finished: for checks whose cases take minutes
    /// (a defect can also make the remaining ones take hours)
    fn fail_fast_fixed(&self) -> bool {
        false
    }
    /// share of the generated cases that is run a second time (other streams) with the process-wide
    /// log level at Trace (scnr's `trace!` arguments are evaluated only then); 0 = no such pass
    fn trace_pass_fraction(&self) -> f64 {
        0.125
    }
    /// whether the fixed cases are repeated in the trace pass
    fn trace_pass_fixed(&self) -> bool {
        false
    }
    /// watchdog limit for one fixed case (fixed cases are larger than generated ones)
    fn fixed_case_timeout_s(&self) -> u64 {
        self.case_timeout_s().saturating_mul(10)
    }
    /// watchdog limit for one generated case
    fn case_timeout_s(&self) -> u64 {
        60
    }
    /// whether a stuck case is a violation of this property (C07, C14) or just inconclusive
    fn hang_is_violation(&self) -> bool {
        false
    }
}

#[derive(Debug, Default)]
pub struct Aggregate {
    pub evaluations: u64,
    pub nontrivial_total: u64,
    pub distinct_nontrivial: HashSet<u64>,
    pub counters: BTreeMap<&'static str, u64>,
    pub samples: Vec<Value>,
    pub inconclusive: u64,
    pub regressions_replayed: u64,
    pub fixed_cases: u64,
}

impl Aggregate {
    fn absorb(&mut self, case: &Case, st: &CaseStats) {
        self.evaluations += 1;
        if st.inconclusive {
            self.inconclusive += 1;
        }
        for (k, v) in &st.counters {
            *self.counters.entry(k).or_insert(0) += v;
        }
        if st.nontrivial {
            self.nontrivial_total += 1;
            let mut h = std::collections::hash_map::DefaultHasher::new();
            case.hash(&mut h);
            let is_new = self.distinct_nontrivial.insert(h.finish());
            if is_new && self.samples.len() < 5 {
                // spread the samples: take the 1st, 10th, 100th ... new non-trivial case
                let n = self.distinct_nontrivial.len();
                if n == 1 || n == 10 || n == 100 || n == 1000 || n == 5000 {
                    self.samples.push(case.to_json());
                }
            }
        }
    }
    fn merge(&mut self, o: Aggregate) {
        self.evaluations += o.evaluations;
        self.nontrivial_total += o.nontrivial_total;
        self.inconclusive += o.inconclusive;
        self.fixed_cases += o.fixed_cases;
        self.distinct_nontrivial.extend(o.distinct_nontrivial);
        for (k, v) in o.counters {
            *self.counters.entry(k).or_insert(0) += v;
        }
        for s in o.samples {
            if self.samples.len() < 5 {
                self.samples.push(s);
            }
        }
    }
}

// --- known findings -----------------------------------------------------------------------------

#[derive(Debug, Clone)]
pub struct KnownFinding {
    pub property: String,
    pub status: String,
    pub what: String,
    pub kind: String,
}

pub fn load_known_findings() -> Vec<KnownFinding> {
    let p = Path::new(VERIF_DIR).join("known_findings.json");
    let Ok(s) = std::fs::read_to_string(&p) else {
        return vec![];
    };
    let v: Value = match serde_json::from_str(&s) {
        Ok(v) => v,
        Err(e) => harness_error(&format!("known_findings.json does not parse: {}", e)),
    };
    let mut out = vec![];
    for e in v.as_array().cloned().unwrap_or_default() {
        out.push(KnownFinding {
            property: e["property"].as_str().unwrap_or("").to_string(),
            status: e["status"].as_str().unwrap_or("").to_string(),
            what: e["what"].as_str().unwrap_or("").to_string(),
            kind: e["signature"]["kind"].as_str().unwrap_or("").to_string(),
        });
    }
    out
}

// --- replay files ---------------------------------------------------------------------------------

pub fn write_replay(
    prop: &str,
    engine: &str,
    seed: u64,
    tier: &str,
    case: &Case,
    f: &Failure,
    stream: Option<&[u8]>,
) -> PathBuf {
    let v = json!({
        "property": prop,
        "engine": engine,
        "seed": seed,
        "tier": tier,
        "case": case.to_json(),
        "what": f.what,
        "kind": f.kind,
        "expected": f.expected,
        "observed": f.observed,
        "panic": f.panic,
        "stream": stream.map(hex),
        "log_level": if trace_logging() { "trace" } else { "off" },
    });
    let text = serde_json::to_string_pretty(&v).unwrap();
    let mut h = std::collections::hash_map::DefaultHasher::new();
    case.hash(&mut h);
    f.kind.hash(&mut h);
    let dir = Path::new(VERIF_DIR).join("replays").join(prop);
    let _ = std::fs::create_dir_all(&dir);
    let path = dir.join(format!("{:016x}.json", h.finish()));
    if let Err(e) = std::fs::write(&path, text) {
        eprintln!("cannot write replay file {}: {}", path.display(), e);
    }
    path
}

fn hex(b: &[u8]) -> String {
    b.iter().map(|x| format!("{:02x}", x)).collect()
}

pub fn read_case_file(path: &Path) -> Result<(Case, Value), String> {
    let s = std::fs::read_to_string(path).map_err(|e| format!("{}: {}", path.display(), e))?;
    let v: Value = serde_json::from_str(&s).map_err(|e| format!("{}: {}", path.display(), e))?;
    let case = Case::from_json(&v["case"])?;
    Ok((case, v))
}

// --- shrinking ------------------------------------------------------------------------------------

/// Structural shrinking: greedily applies single simplification steps that keep the case failing
/// with the same failure kind.
pub fn shrink_case(check: &dyn Check, case: Case, failure: Failure) -> (Case, Failure) {
    let mut best = case;
    let mut best_f = failure;
    let deadline = Instant::now() + std::time::Duration::from_secs(60);
    let mut progress = true;
    while progress && Instant::now() < deadline {
        progress = false;
        let mut cands = check.extra_shrinks(&best);
        cands.extend(crate::shrink::candidates(&best));
        for cand in cands {
            if Instant::now() >= deadline {
                break;
            }
            if let Ok(Err(f)) = guard(|| check.check(&cand)) {
                if f.kind == best_f.kind {
                    best = cand;
                    best_f = f;
                    progress = true;
                    break;
                }
            }
        }
    }
    (best, best_f)
}

// --- the run -------------------------------------------------------------------------------------

pub struct RunConfig {
    pub thorough: bool,
    pub seed: u64,
    pub threads: usize,
    /// multiplies the number of generated cases
    pub scale: f64,
}

pub struct RunResult {
    pub agg: Aggregate,
    pub violation: Option<(Case, Failure, Option<Vec<u8>>, &'static str)>,
    pub wall_s: f64,
}

fn seed_for(seed: u64, prop: &str, thread: usize) -> u64 {
    let mut h = std::collections::hash_map::DefaultHasher::new();
    // DefaultHasher::new() uses fixed keys: deterministic across processes
    seed.hash(&mut h);
    prop.hash(&mut h);
    thread.hash(&mut h);
    h.finish()
}

struct Watch {
    slots: Vec<Mutex<Option<(Instant, Vec<u8>)>>>,
}

pub fn run_generated(check: &dyn Check, cfg: &RunConfig, agg: &mut Aggregate) -> Option<(Case, Failure, Option<Vec<u8>>, &'static str)> {
    run_generated_pass(check, cfg, agg, 1.0, 0)
}

/// `fraction` of the tier's cases, drawn from streams seeded with `seed + salt`.
pub fn run_generated_pass(
    check: &dyn Check,
    cfg: &RunConfig,
    agg: &mut Aggregate,
    fraction: f64,
    salt: u64,
) -> Option<(Case, Failure, Option<Vec<u8>>, &'static str)> {
    let total = ((check.cases(cfg.thorough) as f64) * cfg.scale * fraction).ceil() as usize;
    let threads = cfg.threads.max(1);
    let per_thread = total.div_ceil(threads);
    let stop = Arc::new(AtomicBool::new(false));
    let done = Arc::new(AtomicU64::new(0));
    let watch = Arc::new(Watch {
        slots: (0..threads).map(|_| Mutex::new(None)).collect(),
    });
    let results: Mutex<Vec<(Aggregate, Option<(Vec<u8>, String)>)>> = Mutex::new(Vec::new());
    let hang: Mutex<Option<Vec<u8>>> = Mutex::new(None);
    let first_seen: Mutex<Option<(Case, Failure, Vec<u8>)>> = Mutex::new(None);
    let finished = AtomicBool::new(false);

    std::thread::scope(|s| {
        // watchdog
        let w2 = watch.clone();
        let hang_ref = &hang;
        let finished_ref = &finished;
        let stop2 = stop.clone();
        let limit_s = check.case_timeout_s();
        s.spawn(move || {
            while !finished_ref.load(Ordering::Relaxed) {
                std::thread::sleep(std::time::Duration::from_millis(250));
                for slot in &w2.slots {
                    let g = slot.lock().unwrap();
                    if let Some((t, bytes)) = &*g {
                        if t.elapsed().as_secs() >= limit_s {
                            *hang_ref.lock().unwrap() = Some(bytes.clone());
                            stop2.store(true, Ordering::Relaxed);
                        }
                    }
                }
                if hang_ref.lock().unwrap().is_some() {
                    // cannot cancel the stuck worker: report from here and leave
                    return;
                }
            }
        });
        let mut handles = vec![];
        for t in 0..threads {
            let stop = stop.clone();
            let done = done.clone();
            let watch = watch.clone();
            let results = &results;
            let first_seen = &first_seen;
            handles.push(s.spawn(move || {
                install_panic_hook();
                let mut local = Aggregate::default();
                let failed = std::cell::Cell::new(false);
                let config = Config {
                    cases: per_thread as u32,
                    failure_persistence: None,
                    rng_algorithm: RngAlgorithm::ChaCha,
                    rng_seed: RngSeed::Fixed(seed_for(cfg.seed.wrapping_add(salt), check.id(), t)),
                    max_shrink_iters: 4000,
                    max_shrink_time: 30_000,
                    verbose: 0,
                    ..Config::default()
                };
                let mut runner = TestRunner::new(config);
                let strategy = proptest::collection::vec(proptest::num::u8::ANY, 0..2048);
                let local_cell = std::cell::RefCell::new(&mut local);
                let res = runner.run(&strategy, |bytes| {
                    if stop.load(Ordering::Relaxed) && !failed.get() {
                        return Ok(());
                    }
                    *watch.slots[t].lock().unwrap() = Some((Instant::now(), bytes.clone()));
                    let mut d = Dec::new(&bytes);
                    let case = match guard(|| check.generate(&mut d, cfg.thorough)) {
                        Ok(c) => c,
                        Err(p) => harness_error(&format!("the generator panicked: {}", p)),
                    };
                    let r = guard(|| check.check(&case));
                    *watch.slots[t].lock().unwrap() = None;
                    match r {
                        Ok(Ok(st)) => {
                            if !failed.get() {
                                local_cell.borrow_mut().absorb(&case, &st);
                                done.fetch_add(1, Ordering::Relaxed);
                            }
                            Ok(())
                        }
                        Ok(Err(f)) => {
                            failed.set(true);
                            stop.store(true, Ordering::Relaxed);
                            {
                                let mut g = first_seen.lock().unwrap();
                                // keep the smallest failing stream seen so far
                                if g.as_ref().map_or(true, |x| bytes.len() <= x.2.len()) {
                                    *g = Some((case.clone(), f.clone(), bytes.clone()));
                                }
                            }
                            Err(TestCaseError::fail(f.kind))
                        }
                        Err(p) => {
                            // a panic outside the guarded calls into scnr: harness bug
                            failed.set(true);
                            stop.store(true, Ordering::Relaxed);
                            Err(TestCaseError::fail(format!("HARNESS-PANIC {}", p)))
                        }
                    }
                });
                drop(local_cell);
                let fail = match res {
                    Ok(()) => None,
                    Err(TestError::Fail(reason, bytes)) => Some((bytes, reason.message().to_string())),
                    Err(TestError::Abort(reason)) => {
                        harness_error(&format!("proptest aborted: {}", reason.message()))
                    }
                };
                results.lock().unwrap().push((local, fail));
            }));
        }
        for h in handles {
            // a stuck worker never joins; poll instead
            loop {
                if h.is_finished() {
                    let _ = h.join();
                    break;
                }
                if hang.lock().unwrap().is_some() {
                    break;
                }
                std::thread::sleep(std::time::Duration::from_millis(20));
            }
            if hang.lock().unwrap().is_some() {
                break;
            }
        }
        finished.store(true, Ordering::Relaxed);
        if let Some(bytes) = hang.lock().unwrap().clone() {
            // report and exit the process: scoped threads cannot be abandoned
            let mut d = Dec::new(&bytes);
            let case = check.generate(&mut d, cfg.thorough);
            let f = Failure::new("hang", "a case did not finish within the watchdog limit");
            if check.hang_is_violation() {
                let path = write_replay(check.id(), "proptest", cfg.seed, tier_name(cfg.thorough), &case, &f, Some(&bytes));
                println!("VIOLATION property={} replay={}", check.id(), path.display());
                std::process::exit(1);
            } else {
                eprintln!("INCONCLUSIVE: watchdog fired on case {}", case.to_json());
                std::process::exit(2);
            }
        }
    });

    let mut first_fail: Option<(Vec<u8>, String)> = None;
    for (a, f) in results.into_inner().unwrap() {
        agg.merge(a);
        if first_fail.is_none() {
            first_fail = f;
        }
    }
    let (bytes, reason) = first_fail?;
    if reason.starts_with("HARNESS-PANIC") {
        let mut d = Dec::new(&bytes);
        let case = check.generate(&mut d, cfg.thorough);
        harness_error(&format!("{} on case {}", reason, case.to_json()));
    }
    let mut d = Dec::new(&bytes);
    let case = check.generate(&mut d, cfg.thorough);
    match guard(|| check.check(&case)) {
        Ok(Err(f)) => Some((case, f, Some(bytes), "proptest")),
        _ if check.nondeterministic() => {
            let (c, f, b) = first_seen.into_inner().unwrap().expect("a failure was recorded");
            eprintln!("note: the shrunk case passed when executed again; reporting the failure as first observed");
            Some((c, f, Some(b), "proptest"))
        }
        other => harness_error(&format!(
            "shrunk case does not fail again ({:?}): {}",
            other.map(|r| r.map(|_| ())),
            case.to_json()
        )),
    }
}

/// Development tool (`vh <Cnn> hitrate [quick|thorough]`): runs the generated cases of a tier
/// WITHOUT stopping at the first failure and reports how many cases fail - used with a seeded
/// change applied, to measure how often the generator reaches what the change needs (a check that
/// catches a change with one case in a whole run is one unlucky seed away from missing it).
pub fn hitrate(check: &dyn Check, cfg: &RunConfig) -> i32 {
    install_panic_hook();
    let total = ((check.cases(cfg.thorough) as f64) * cfg.scale) as usize;
    let threads = cfg.threads.max(1);
    let per_thread = total.div_ceil(threads);
    let fails = AtomicU64::new(0);
    let ran = AtomicU64::new(0);
    let samples: Mutex<Vec<String>> = Mutex::new(Vec::new());
    std::thread::scope(|s| {
        for t in 0..threads {
            let (fails, ran, samples) = (&fails, &ran, &samples);
            s.spawn(move || {
                install_panic_hook();
                let config = Config {
                    cases: per_thread as u32,
                    failure_persistence: None,
                    rng_algorithm: RngAlgorithm::ChaCha,
                    rng_seed: RngSeed::Fixed(seed_for(cfg.seed, check.id(), t)),
                    verbose: 0,
                    ..Config::default()
                };
                let mut runner = TestRunner::new(config);
                let strategy = proptest::collection::vec(proptest::num::u8::ANY, 0..2048);
                let _ = runner.run(&strategy, |bytes| {
                    let mut d = Dec::new(&bytes);
                    let Ok(case) = guard(|| check.generate(&mut d, cfg.thorough)) else {
                        return Ok(());
                    };
                    ran.fetch_add(1, Ordering::Relaxed);
                    if let Ok(Err(f)) = guard(|| check.check(&case)) {
                        fails.fetch_add(1, Ordering::Relaxed);
                        let mut g = samples.lock().unwrap();
                        if g.len() < 6 {
                            let mut j = case.to_json().to_string();
                            j.truncate(700);
                            g.push(format!("{}: {} | {}", f.kind, f.what.chars().take(200).collect::<String>(), j));
                        }
                    }
                    Ok(())
                });
            });
        }
    });
    for smp in samples.lock().unwrap().iter() {
        println!("sample {}", smp);
    }
    println!(
        "HITRATE property={} tier={} cases={} failing={}",
        check.id(),
        tier_name(cfg.thorough),
        ran.load(Ordering::Relaxed),
        fails.load(Ordering::Relaxed)
    );
    0
}

pub fn tier_name(thorough: bool) -> &'static str {
    if thorough {
        "thorough"
    } else {
        "quick"
    }
}

/// Replays the committed regression files of a property; returns the first that fails.
pub fn run_regressions(check: &dyn Check, agg: &mut Aggregate) -> Option<(Case, Failure, PathBuf)> {
    let dir = Path::new(VERIF_DIR).join("regressions").join(check.id());
    let Ok(rd) = std::fs::read_dir(&dir) else {
        return None;
    };
    let mut files: Vec<PathBuf> = rd.filter_map(|e| e.ok().map(|e| e.path())).collect();
    files.sort();
    for f in files {
        if f.extension().and_then(|e| e.to_str()) != Some("json") {
            continue;
        }
        let (case, _) = match read_case_file(&f) {
            Ok(x) => x,
            Err(e) => harness_error(&format!("regression file: {}", e)),
        };
        agg.regressions_replayed += 1;
        match guard(|| check.check(&case)) {
            Ok(Ok(_)) => {}
            Ok(Err(fl)) => return Some((case, fl, f)),
            Err(p) => harness_error(&format!("harness panic on regression {}: {}", f.display(), p)),
        }
    }
    None
}

pub fn write_evidence(
    check: &dyn Check,
    cfg: &RunConfig,
    agg: &Aggregate,
    wall_s: f64,
    violations: u64,
    extra_top: Value,
) {
    let mut coverage = json!({
        "evaluations": agg.evaluations,
        "distinct_nontrivial": agg.distinct_nontrivial.len(),
        "nontrivial_total": agg.nontrivial_total,
        "rule": check.rule(),
        "samples": agg.samples,
        "classes": agg.counters,
        "regressions_replayed": agg.regressions_replayed,
        "fixed_cases": agg.fixed_cases,
        "inconclusive": agg.inconclusive,
        "excluded_known": 0,
    });
    if let Value::Object(m) = check.extra_coverage(agg) {
        for (k, v) in m {
            coverage[k] = v;
        }
    }
    if let Value::Object(m) = extra_top {
        for (k, v) in m {
            coverage[k] = v;
        }
    }
    let v = json!({
        "property_id": check.id(),
        "tier": tier_name(cfg.thorough),
        "seed": cfg.seed,
        "level": check.level(),
        "coverage": coverage,
        "assumptions": check.assumptions(),
        "wall_s": wall_s,
        "violations": violations,
    });
    let dir = match std::env::var("VERIF_EVIDENCE_DIR") {
        Ok(d) => PathBuf::from(d),
        Err(_) => Path::new(VERIF_DIR).join("evidence"),
    };
    let _ = std::fs::create_dir_all(&dir);
    let path = dir.join(format!("{}.json", check.id()));
    if let Err(e) = std::fs::write(&path, serde_json::to_string_pretty(&v).unwrap()) {
        harness_error(&format!("cannot write evidence {}: {}", path.display(), e));
    }
}

/// Full run of one property: regressions, fixed cases, generated cases, shrinking, reporting.
/// Returns the process exit code.
pub fn run_property(check: &dyn Check, cfg: &RunConfig) -> i32 {
    install_panic_hook();
    let t0 = Instant::now();
    let mut agg = Aggregate::default();
    let known = load_known_findings();

    let mut violation: Option<(Case, Failure, Option<Vec<u8>>, &'static str)> = None;
    start_fixed_watchdog(check, cfg);

    if let Some((case, f, path)) = run_regressions(check, &mut agg) {
        eprintln!("regression {} fails again", path.display());
        violation = Some((case, f, None, "regression"));
    }
    if violation.is_none() {
        let fixed = check.fixed_cases(cfg.thorough);
        // fixed cases in parallel chunks
        let failed: Mutex<Option<(Case, Failure)>> = Mutex::new(None);
        let aggs: Mutex<Vec<Aggregate>> = Mutex::new(vec![]);
        let chunk = fixed.len().div_ceil(cfg.threads.max(1)).max(1);
        std::thread::scope(|s| {
            for part in fixed.chunks(chunk) {
                let failed = &failed;
                let aggs = &aggs;
                s.spawn(move || {
                    install_panic_hook();
                    let mut local = Aggregate::default();
                    for case in part {
                        if failed.lock().unwrap().is_some() {
                            break;
                        }
                        match watched(case, || guard(|| check.check(case))) {
                            Ok(Ok(st)) => {
                                local.absorb(case, &st);
                                local.fixed_cases += 1;
                            }
                            Ok(Err(f)) => {
                                let mut g = failed.lock().unwrap();
                                if g.is_none() && check.fail_fast_fixed() {
                                    // report from here and leave the process: the other workers
                                    // cannot be interrupted
                                    let known = load_known_findings();
                                    if !known.iter().any(|k| k.property == check.id() && k.status == "known" && k.kind == f.kind) {
                                        let path = write_replay(check.id(), "fixed", cfg.seed, tier_name(cfg.thorough), case, &f, None);
                                        eprintln!(
                                            "violation of {}: {}\n  expected: {}\n  observed: {}\n  panic: {:?}\n  case: {}",
                                            check.id(), f.what, f.expected, f.observed, f.panic, case.to_json()
                                        );
                                        println!("VIOLATION property={} replay={}", check.id(), path.display());
                                        local.absorb(case, &CaseStats::default());
                                        let wall = t0.elapsed().as_secs_f64();
                                        write_evidence(check, cfg, &local, wall, 1, Value::Null);
                                        println!(
                                            "SUMMARY property={} tier={} cases={} nontrivial={} violations=1 wall_s={:.1}",
                                            check.id(), tier_name(cfg.thorough), local.evaluations, local.distinct_nontrivial.len(), wall
                                        );
                                        std::process::exit(1);
                                    }
                                }
                                if g.is_none() {
                                    *g = Some((case.clone(), f));
                                }
                            }
                            Err(p) => harness_error(&format!(
                                "harness panic on fixed case {}: {}",
                                case.to_json(),
                                p
                            )),
                        }
                    }
                    aggs.lock().unwrap().push(local);
                });
            }
        });
        for a in aggs.into_inner().unwrap() {
            agg.merge(a);
        }
        if let Some((case, f)) = failed.into_inner().unwrap() {
            violation = Some((case, f, None, "fixed"));
        }
    }
    if violation.is_none() {
        violation = run_generated(check, cfg, &mut agg);
    }
    // second pass with trace logging switched on (sink logger)
    if violation.is_none() && check.trace_pass_fraction() > 0.0 {
        set_trace_logging(true);
        let before = agg.evaluations;
        if check.trace_pass_fixed() {
            for case in check.fixed_cases(cfg.thorough) {
                match watched(&case, || guard(|| check.check(&case))) {
                    Ok(Ok(st)) => {
                        agg.absorb(&case, &st);
                        agg.fixed_cases += 1;
                    }
                    Ok(Err(f)) => {
                        if check.fail_fast_fixed() {
                            let path = write_replay(check.id(), "fixed+trace", cfg.seed, tier_name(cfg.thorough), &case, &f, None);
                            eprintln!("violation of {} (trace logging on): {}\n  expected: {}\n  observed: {}", check.id(), f.what, f.expected, f.observed);
                            println!("VIOLATION property={} replay={}", check.id(), path.display());
                            let wall = t0.elapsed().as_secs_f64();
                            write_evidence(check, cfg, &agg, wall, 1, Value::Null);
                            println!(
                                "SUMMARY property={} tier={} cases={} nontrivial={} violations=1 wall_s={:.1}",
                                check.id(), tier_name(cfg.thorough), agg.evaluations, agg.distinct_nontrivial.len(), wall
                            );
                            std::process::exit(1);
                        }
                        violation = Some((case, f, None, "fixed+trace"));
                        break;
                    }
                    Err(p) => harness_error(&format!("harness panic on fixed case (trace pass) {}: {}", case.to_json(), p)),
                }
            }
        }
        if violation.is_none() {
            violation = run_generated_pass(check, cfg, &mut agg, check.trace_pass_fraction(), 0x7ace).map(|(c, f, b, _)| (c, f, b, "proptest+trace"));
        }
        agg.counters.insert("cases_with_trace_logging".into(), agg.evaluations - before);
        if violation.is_none() {
            set_trace_logging(false);
        }
    }

    let mut exit = 0;
    let mut violations = 0;
    if let Some((case, f, bytes, engine)) = violation {
        let (case, f) = shrink_case(check, case, f);
        // known finding?
        if let Some(k) = known
            .iter()
            .find(|k| k.property == check.id() && k.status == "known" && k.kind == f.kind)
        {
            println!("KNOWN-FINDING: property={} {}", check.id(), k.what);
        } else {
            violations = 1;
            let path = write_replay(
                check.id(),
                engine,
                cfg.seed,
                tier_name(cfg.thorough),
                &case,
                &f,
                bytes.as_deref(),
            );
            eprintln!(
                "violation of {}: {}\n  expected: {}\n  observed: {}\n  panic: {:?}\n  case: {}",
                check.id(),
                f.what,
                f.expected,
                f.observed,
                f.panic,
                case.to_json()
            );
            println!("VIOLATION property={} replay={}", check.id(), path.display());
            exit = 1;
        }
    }
    let wall = t0.elapsed().as_secs_f64();
    write_evidence(check, cfg, &agg, wall, violations, Value::Null);
    eprintln!(
        "{} {}: {} cases, {} distinct non-trivial, {} regressions, {:.1}s, classes {:?}",
        check.id(),
        tier_name(cfg.thorough),
        agg.evaluations,
        agg.distinct_nontrivial.len(),
        agg.regressions_replayed,
        wall,
        agg.counters
    );
    println!(
        "SUMMARY property={} tier={} cases={} nontrivial={} violations={} wall_s={:.1}",
        check.id(),
        tier_name(cfg.thorough),
        agg.evaluations,
        agg.distinct_nontrivial.len(),
        violations,
        wall
    );
    exit
}

/// Replays one saved case through the plain check function.
pub fn replay_file(check: &dyn Check, path: &Path) -> i32 {
    install_panic_hook();
    let (case, v) = match read_case_file(path) {
        Ok(x) => x,
        Err(e) => harness_error(&e),
    };
    if v["log_level"].as_str() == Some("trace") {
        set_trace_logging(true);
    }
    match guard(|| check.check(&case)) {
        Ok(Ok(_)) => {
            println!("REPLAY property={} holds on {}", check.id(), path.display());
            0
        }
        Ok(Err(f)) => {
            eprintln!(
                "violation of {}: {}\n  expected: {}\n  observed: {}\n  panic: {:?}",
                check.id(),
                f.what,
                f.expected,
                f.observed,
                f.panic
            );
            println!("VIOLATION property={} replay={}", check.id(), path.display());
            1
        }
        Err(p) => harness_error(&format!("harness panic during replay: {}", p)),
    }
}

#[allow(dead_code)]
fn _unused(_: &dyn Strategy<Value = u8, Tree = Box<dyn ValueTree<Value = u8>>>) {}

/// Decodes a libFuzzer artifact with the generator of the property, shrinks and reports it.
pub fn fuzz_artifact(check: &dyn Check, path: &Path, seed: u64) -> i32 {
    install_panic_hook();
    let bytes = match std::fs::read(path) {
        Ok(b) => b,
        Err(e) => harness_error(&format!("{}: {}", path.display(), e)),
    };
    let mut d = Dec::new(&bytes);
    let case = check.generate(&mut d, false);
    match guard(|| check.check(&case)) {
        Ok(Ok(_)) => {
            eprintln!("fuzz artifact {} does not fail the check of {}", path.display(), check.id());
            0
        }
        Ok(Err(f)) => {
            let (case, f) = shrink_case(check, case, f);
            let known = load_known_findings();
            if let Some(k) = known
                .iter()
                .find(|k| k.property == check.id() && k.status == "known" && k.kind == f.kind)
            {
                println!("KNOWN-FINDING: property={} {}", check.id(), k.what);
                return 0;
            }
            let p = write_replay(check.id(), "libfuzzer", seed, "thorough", &case, &f, Some(&bytes));
            eprintln!("violation of {}: {}\n  expected: {}\n  observed: {}\n  case: {}", check.id(), f.what, f.expected, f.observed, case.to_json());
            println!("VIOLATION property={} replay={}", check.id(), p.display());
            1
        }
        Err(p) => harness_error(&format!("harness panic on fuzz artifact: {}", p)),
    }
}

/// Adds the statistics of a fuzz campaign (JSON object) to the evidence file of the property.
pub fn add_fuzz_evidence(check: &dyn Check, stats_json: &str) {
    let dir = match std::env::var("VERIF_EVIDENCE_DIR") {
        Ok(d) => PathBuf::from(d),
        Err(_) => Path::new(VERIF_DIR).join("evidence"),
    };
    let path = dir.join(format!("{}.json", check.id()));
    let Ok(text) = std::fs::read_to_string(&path) else { return };
    let Ok(mut v) = serde_json::from_str::<Value>(&text) else { return };
    let stats: Value = serde_json::from_str(stats_json).unwrap_or(Value::Null);
    v["coverage"]["fuzz"] = stats;
    let _ = std::fs::write(&path, serde_json::to_string_pretty(&v).unwrap());
}
