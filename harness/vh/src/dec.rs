//! Choice-stream decoder. Every generated case is a pure function of a byte stream; the stream is
//! supplied by proptest (seeded) or by libFuzzer. When the stream is exhausted the minimal choice
//! (0) is returned, and indices are mapped monotonically so that smaller bytes mean simpler cases.

pub struct Dec<'a> {
    data: &'a [u8],
    pos: usize,
}

impl<'a> Dec<'a> {
    pub fn new(data: &'a [u8]) -> Self {
        Dec { data, pos: 0 }
    }

    pub fn exhausted(&self) -> bool {
        self.pos >= self.data.len()
    }

    pub fn consumed(&self) -> usize {
        self.pos.min(self.data.len())
    }

    #[inline]
    fn byte(&mut self) -> u8 {
        let b = self.data.get(self.pos).copied().unwrap_or(0);
        self.pos += 1;
        b
    }

    /// A number in 0..n (n >= 1), monotone in the consumed bytes.
    pub fn below(&mut self, n: usize) -> usize {
        if n <= 1 {
            return 0;
        }
        if n <= 256 {
            (self.byte() as usize * n) >> 8
        } else if n <= 65536 {
            let v = ((self.byte() as usize) << 8) | self.byte() as usize;
            (v * n) >> 16
        } else {
            let mut v: u64 = 0;
            for _ in 0..4 {
                v = (v << 8) | self.byte() as u64;
            }
            ((v as u128 * n as u128) >> 32) as usize
        }
    }

    /// A number in lo..=hi.
    pub fn range(&mut self, lo: usize, hi: usize) -> usize {
        lo + self.below(hi - lo + 1)
    }

    /// true with probability num/256 (false is the minimal choice).
    pub fn chance(&mut self, num: usize) -> bool {
        (self.byte() as usize) >= 256 - num.min(256)
    }

    pub fn bool(&mut self) -> bool {
        self.chance(128)
    }

    /// Index into a weight table; index 0 is the minimal choice.
    pub fn weighted(&mut self, weights: &[usize]) -> usize {
        let total: usize = weights.iter().sum();
        if total == 0 {
            return 0;
        }
        let mut v = self.below(total);
        for (i, w) in weights.iter().enumerate() {
            if v < *w {
                return i;
            }
            v -= *w;
        }
        weights.len() - 1
    }

    pub fn pick<'b, T>(&mut self, items: &'b [T]) -> &'b T {
        &items[self.below(items.len())]
    }

    pub fn u64(&mut self) -> u64 {
        let mut v: u64 = 0;
        for _ in 0..8 {
            v = (v << 8) | self.byte() as u64;
        }
        v
    }
}
