pub mod automaton;
pub mod build;
pub mod cache;
pub mod classes;
pub mod common;
pub mod dotexport;
pub mod history;
pub mod isolation;
pub mod large;
pub mod modes;
pub mod scan;
pub mod serde;

use crate::run::Check;

pub fn all() -> Vec<Box<dyn Check>> {
    vec![
        Box::new(scan::C01),
        Box::new(automaton::C02),
        Box::new(automaton::C03),
        Box::new(scan::C04),
        Box::new(scan::C05),
        Box::new(modes::C06),
        Box::new(scan::C07),
        Box::new(classes::C08),
        Box::new(history::C09),
        Box::new(history::C10),
        Box::new(history::C11),
        Box::new(isolation::C12),
        Box::new(cache::C13),
        Box::new(build::C15),
        Box::new(serde::C16),
        Box::new(large::C17),
        Box::new(dotexport::C18),
    ]
}

pub fn by_id(id: &str) -> Option<Box<dyn Check>> {
    all().into_iter().find(|c| c.id() == id)
}
