//! C13: the scanner cache is transparent.

use super::common::*;
use crate::automata::scanners_equivalent;
use crate::case::*;
use crate::dec::Dec;
use crate::gen::{self, GenParams};
use crate::model::Tok;
use crate::run::{guard, CaseStats, Check, CheckResult, Failure};
use crate::rx::{self, Rx};
use scnr::ScannerModeSwitcher;
use serde_json::{json, Value};
use std::sync::atomic::{AtomicU64, Ordering};

pub struct C13;

static NONCE: AtomicU64 = AtomicU64::new(1);

fn variant(d: &mut Dec, base: &[ModeSpec], p: &GenParams) -> (Vec<ModeSpec>, &'static str) {
    let mut v = base.to_vec();
    let mi = d.below(v.len());
    let np = v[mi].pats.len();
    let pi = d.below(np);
    for _attempt in 0..4 {
        match d.below(15) {
            12 if v[mi].pats[pi].la.is_some() => {
                // a configuration that reads the same as the base when patterns are rendered as
                // text the way scnr's own `Display for Pattern` does it (regex text immediately
                // followed by `(?=..)` / `(?!..)`): the lookahead moves into the regex text. The
                // twin does not compile (look-around inside a regex is unsupported), so a cache
                // keyed by such a rendering hands out a scanner where build_uncached() fails.
                let la = v[mi].pats[pi].la.take().unwrap();
                let sep = *d.pick(&["", "", " "]);
                let text = format!(
                    "{}{}(?{}{})",
                    rx::print(&v[mi].pats[pi].rx),
                    sep,
                    if la.positive { "=" } else { "!" },
                    rx::print(&la.rx)
                );
                v[mi].pats[pi].rx = Rx::Raw(text);
                return (v, "text_twin_lookahead_in_regex");
            }
            13 if np >= 2 && pi + 1 < np && v[mi].pats[pi].la.is_none() => {
                // two neighbouring patterns become one whose regex text spells out "p1 <sep> t1
                // <sep> p2" for a family of plausible one-line renderings of a pattern list: a
                // cache key that is such a rendering without escaping cannot tell the two apart
                // (seeds C13l, C14l; only renderings whose separators are in this family)
                let sep1 = *d.pick(&[" => ", "=>", " -> ", "->", ":", ": ", " : ", "=", " = ", " ", ",", ", ", "#", "@", "\t"]);
                let sep2 = *d.pick(&[", ", ", ", ",", "; ", ";", " ", "|", " | ", "\n"]);
                let p1 = v[mi].pats.remove(pi);
                let text = format!("{}{}{}{}{}", rx::print(&p1.rx), sep1, p1.tt, sep2, rx::print(&v[mi].pats[pi].rx));
                v[mi].pats[pi].rx = Rx::Raw(text);
                return (v, "text_twin_patterns_merged");
            }
            14 if np >= 2 && pi + 1 < np && v[mi].pats[pi].la.is_none() => {
                // the same for renderings that put the token type first: "t1 <u> p1 <u> <r> t2 <u>
                // p2 <u> <r>" is also what ONE pattern of type t1 with the regex text "p1 <u> <r> t2
                // <u> p2" renders to (u = unit separator, r = record separator of the rendering)
                let u = *d.pick(&["\u{1f}", "\u{1f}", "\0", "\t", ",", ":", " ", "|", "="]);
                let r = *d.pick(&["\u{1e}", "\u{1e}", "\n", ";", ",", "", " ", "|", "\0"]);
                let p1 = v[mi].pats.remove(pi);
                let p2 = &mut v[mi].pats[pi];
                let text = format!("{}{}{}{}{}{}", rx::print(&p1.rx), u, r, p2.tt, u, rx::print(&p2.rx));
                p2.rx = Rx::Raw(text);
                p2.tt = p1.tt;
                return (v, "text_twin_patterns_merged_type_first");
            }
            11 => {
                // a configuration that collides with the base under FxHasher (the hasher of the
                // cache map, rustc-hash 2.1: h = (h + word) * K per integer word): the last
                // transition (t, m) of a mode becomes (t + K^-1, m - 1), which leaves the hash of
                // everything hashed after it unchanged. A cache that keeps the 64-bit hash instead
                // of the configuration hands out the base's compilation for it.
                const K_INV: usize = 0x7814_94a5_5daa_ed0d;
                for m in v.iter_mut() {
                    let n = m.transitions.len();
                    if n == 0 {
                        continue;
                    }
                    let (t, target) = m.transitions[n - 1];
                    if target >= 1 {
                        if let Some(t2) = t.checked_add(K_INV) {
                            m.transitions[n - 1] = (t2, target - 1);
                            return (v, "fx_hash_collision_transition");
                        }
                    }
                }
            }
            9 => {
                // one more mode behind the others (a copy of an existing one under a new name): the
                // base is a strict prefix of this list of modes
                let mut extra = v[mi].clone();
                extra.name = format!("{}_X", extra.name);
                v.push(extra);
                return (v, "mode_appended");
            }
            10 if v.len() >= 2 => {
                // the last mode dropped (transitions into it removed): a strict prefix of the base
                v.pop();
                let nm = v.len();
                for m in v.iter_mut() {
                    m.transitions.retain(|t| t.1 < nm);
                }
                return (v, "last_mode_dropped");
            }
            0 => {
                // one token type changed (kept distinct within the mode): a neighbour, or a value
                // that coincides with the old one when truncated to 8 / 16 / 32 bits
                let delta = match d.below(6) {
                    0 => 1usize << 32,
                    1 => 1 << 16,
                    2 => 256,
                    3 => 3usize << 32,
                    _ => 1 + d.below(3),
                };
                let mut tt = v[mi].pats[pi].tt.wrapping_add(delta);
                while v[mi].pats.iter().any(|q| q.tt == tt) {
                    tt += 1;
                }
                v[mi].pats[pi].tt = tt;
                return (v, "token_type_changed");
            }
            1 if np >= 2 => {
                let pj = (pi + 1 + d.below(np - 1)) % np;
                v[mi].pats.swap(pi, pj);
                return (v, "patterns_swapped");
            }
            2 if v[mi].pats[pi].la.is_none() => {
                v[mi].pats[pi].la = Some(LaSpec {
                    positive: d.bool(),
                    rx: gen::gen_lookahead_rx(d, p),
                });
                return (v, "lookahead_added");
            }
            3 if v[mi].pats[pi].la.is_some() => {
                v[mi].pats[pi].la = None;
                return (v, "lookahead_removed");
            }
            4 if v[mi].pats[pi].la.is_some() => {
                let la = v[mi].pats[pi].la.as_mut().unwrap();
                la.positive = !la.positive;
                return (v, "lookahead_polarity_flipped");
            }
            5 if v[mi].pats[pi].la.is_some() => {
                let la = v[mi].pats[pi].la.as_mut().unwrap();
                la.rx = Rx::Concat(vec![la.rx.clone(), Rx::Lit(gen::gen_char(d), rx::LitForm::Verbatim)]);
                return (v, "lookahead_pattern_changed");
            }
            6 => {
                // transition added or retargeted
                let nm = v.len();
                if let Some(t) = v[mi].transitions.first_mut() {
                    if nm > 1 {
                        t.1 = (t.1 + 1) % nm;
                        return (v, "transition_retargeted");
                    }
                }
                let tt = v[mi].pats[pi].tt;
                if v[mi].transitions.iter().all(|t| t.0 != tt) {
                    v[mi].transitions.push((tt, d.below(nm)));
                    v[mi].transitions.sort_unstable();
                    return (v, "transition_added");
                } else if let Some(pos) = v[mi].transitions.iter().position(|t| t.0 == tt) {
                    // the trigger moves to a token type equal to the old one modulo 2^32
                    let moved = tt.wrapping_add(1usize << 32);
                    if v[mi].transitions.iter().all(|t| t.0 != moved) {
                        v[mi].transitions[pos].0 = moved;
                        v[mi].transitions.sort_unstable();
                        return (v, "transition_trigger_shifted_by_2_32");
                    }
                }
            }
            7 => {
                if v[mi].transitions.len() >= 2 && d.bool() {
                    // the same transitions in another order (only constructible through serde,
                    // ScannerMode::new insists on sorted lists); order matters to the lookup
                    v[mi].transitions.swap(0, 1);
                    return (v, "transitions_reordered");
                }
                v[mi].name = format!("{}_R", v[mi].name);
                return (v, "mode_renamed");
            }
            8 => {
                v[mi].pats[pi].rx = Rx::Concat(vec![
                    v[mi].pats[pi].rx.clone(),
                    Rx::Lit(gen::gen_char(d), rx::LitForm::Verbatim),
                ]);
                return (v, "pattern_changed");
            }
            _ => {}
        }
    }
    v[mi].name = format!("{}_R", v[mi].name);
    (v, "mode_renamed")
}

fn failing(d: &mut Dec, base: &[ModeSpec]) -> Vec<ModeSpec> {
    let mut v = base.to_vec();
    let bad = *d.pick(&["a(", "[a", "\\b", "(?i)a", "a*?", "\\p{Xyz}", "a{2,1}", "(?=a)"]);
    if d.chance(48) {
        // the base followed by one more mode that does not compile
        let mut extra = v[d.below(v.len())].clone();
        extra.name = format!("{}_F", extra.name);
        extra.pats[0].rx = Rx::Raw(bad.to_string());
        v.push(extra);
        return v;
    }
    let mi = d.below(v.len()); // first or later mode
    let np = v[mi].pats.len();
    let pi = if d.bool() { 0 } else { np - 1 };
    if d.chance(80) {
        v[mi].pats[pi].la = Some(LaSpec {
            positive: true,
            rx: Rx::Raw(bad.to_string()),
        });
    } else {
        v[mi].pats[pi].rx = Rx::Raw(bad.to_string());
    }
    v
}

fn pool_of(case: &Case) -> Result<Vec<(Vec<ModeSpec>, String)>, String> {
    let mut out = Vec::new();
    for e in case.extra["pool"].as_array().ok_or("no pool")? {
        let mut modes = Vec::new();
        for m in e["modes"].as_array().ok_or("pool entry without modes")? {
            modes.push(ModeSpec::from_json(m)?);
        }
        out.push((modes, e["kind"].as_str().unwrap_or("").to_string()));
    }
    Ok(out)
}

fn probe_chars(pool: &[(Vec<ModeSpec>, String)]) -> Vec<char> {
    let mut v: Vec<char> = (0u32..0x180).filter_map(char::from_u32).collect();
    v.extend(gen::ALPHABET);
    v.extend(gen::FOREIGN);
    for cp in [0x7FFu32, 0x800, 0xD7FF, 0xE000, 0xFFFF, 0x10000, 0x10FFFF, 0x2028, 0x2029, 0x3000] {
        v.push(char::from_u32(cp).unwrap());
    }
    let mut lits = Vec::new();
    for (modes, _) in pool {
        for m in modes {
            for p in &m.pats {
                rx::collect_literals(&p.rx, &mut lits);
            }
        }
    }
    for c in lits {
        for d in [-1i64, 0, 1] {
            if let Some(x) = char::from_u32((c as i64 + d).max(0) as u32) {
                v.push(x);
            }
        }
    }
    v.sort_unstable();
    v.dedup();
    v
}

/// Sequences of `add_patterns(..).build()` (the simple builder path): lists that are prefixes and
/// extensions of each other, one pattern changed, two swapped, a failing list.
fn gen_simple_case(d: &mut Dec, p: &GenParams) -> Case {
    let q = GenParams {
        lookahead_per_256: 0,
        big_token_types: false,
        ..p.clone()
    };
    let n = 2 + d.below(3);
    let base: Vec<String> = (0..n).map(|_| rx::print(&gen::gen_pattern_rx(d, &q))).collect();
    let mut lists: Vec<(Vec<String>, &'static str)> = vec![(base.clone(), "base")];
    for _ in 0..2 + d.below(3) {
        let mut v = base.clone();
        let kind = match d.below(6) {
            0 => {
                v.truncate(1 + d.below(n - 1));
                "prefix"
            }
            1 => {
                v.push(rx::print(&gen::gen_pattern_rx(d, &q)));
                "extension"
            }
            2 => {
                let i = d.below(n);
                v[i] = rx::print(&gen::gen_pattern_rx(d, &q));
                "one_changed"
            }
            3 => {
                let i = d.below(n);
                let j = (i + 1 + d.below(n - 1)) % n;
                v.swap(i, j);
                "swapped"
            }
            4 => {
                v.clear();
                "empty"
            }
            _ => {
                let bad = *d.pick(&["a(", "[a", "\\b", "a*?"]);
                if d.bool() {
                    v.push(bad.to_string());
                } else {
                    v.insert(0, bad.to_string());
                }
                "failing"
            }
        };
        lists.push((v, kind));
    }
    let nseq = 3 + d.below(8);
    let seq: Vec<usize> = (0..nseq).map(|_| d.below(lists.len())).collect();
    // probe inputs from the languages of all lists
    let mut inputs = Vec::new();
    for (l, kind) in &lists {
        if *kind == "failing" || l.is_empty() {
            continue;
        }
        let c = Case {
            modes: vec![ModeSpec {
                name: "INITIAL".into(),
                pats: l
                    .iter()
                    .enumerate()
                    .map(|(i, s)| PatSpec {
                        rx: rx::parse_supported(s),
                        tt: i,
                        la: None,
                    })
                    .collect(),
                transitions: vec![],
            }],
            ..Case::default()
        };
        inputs.push(gen::gen_input(d, &c.model(), 16));
    }
    Case {
        inputs,
        extra: json!({
            "kind": "simple",
            "lists": lists.iter().map(|(l, k)| json!({"kind": k, "patterns": l})).collect::<Vec<_>>(),
            "seq": seq,
        }),
        ..Case::default()
    }
}

fn check_simple(case: &Case) -> CheckResult {
    let Some(ls) = case.extra["lists"].as_array() else {
        return Ok(discard("discard_shape"));
    };
    let mut lists: Vec<(Vec<String>, String)> = Vec::new();
    for l in ls {
        let pats: Vec<String> = match l["patterns"].as_array() {
            Some(a) => a.iter().filter_map(|x| x.as_str().map(|s| s.to_string())).collect(),
            None => return Ok(discard("discard_shape")),
        };
        lists.push((pats, l["kind"].as_str().unwrap_or("").to_string()));
    }
    let seq: Vec<usize> = case.extra["seq"]
        .as_array()
        .map(|a| a.iter().filter_map(|x| x.as_u64()).map(|x| x as usize).collect())
        .unwrap_or_default();
    if seq.iter().any(|i| *i >= lists.len()) || lists.is_empty() {
        return Ok(discard("discard_shape"));
    }
    let nonce = NONCE.fetch_add(1, Ordering::Relaxed);
    // the nonce pattern stands first so that prefix relations between the lists survive
    let nonce_pat = format!("\\u{{E000}}N{}N", nonce);
    let mut st = CaseStats::default();
    st.count("simple_builder_cases");
    let mut built: Vec<usize> = Vec::new();
    let mut failed_before = false;
    for (step, &i) in seq.iter().enumerate() {
        let (l, kind) = &lists[i];
        let mut pats = vec![nonce_pat.clone()];
        pats.extend(l.iter().cloned());
        let reference_mode = scnr::ScannerMode::new(
            "INITIAL",
            pats.iter()
                .enumerate()
                .map(|(k, s)| scnr::Pattern::new(s.clone(), k))
                .collect::<Vec<_>>(),
            vec![],
        );
        let r = guard(|| {
            (
                scnr::ScannerBuilder::new().add_patterns(&pats).build(),
                scnr::ScannerBuilder::new()
                    .add_scanner_mode(reference_mode.clone())
                    .build_uncached(),
            )
        });
        let (a, b) = match r {
            Err(p) => return Err(Failure::panic("c13.panic", format!("simple build {} panicked", step), p)),
            Ok(x) => x,
        };
        if !built.is_empty() && !built.contains(&i) {
            st.count("variant_after_cached_sibling");
            st.nontrivial = true;
        }
        if failed_before && kind != "failing" {
            st.count("valid_after_failing");
            st.nontrivial = true;
        }
        st.count("builds");
        match (a, b) {
            (Err(_), Err(_)) => {
                st.count("failing_builds");
                failed_before = true;
            }
            (Ok(_), Err(e)) => {
                return Err(Failure::new(
                    "c13.outcome",
                    format!("simple build {} ({}): add_patterns(..).build() succeeds but the same patterns do not build without the cache ({})", step, kind, e),
                ))
            }
            (Err(e), Ok(_)) => {
                return Err(Failure::new(
                    "c13.outcome",
                    format!("simple build {} ({}): add_patterns(..).build() fails ({}) but the same patterns build without the cache", step, kind, e),
                ))
            }
            (Ok(a), Ok(b)) => {
                built.push(i);
                let r = guard(|| -> Result<(), String> {
                    if a.verif_dump() == b.verif_dump() {
                        Ok(())
                    } else {
                        scanners_equivalent(&a, &b).map(|_| ())
                    }
                });
                match r {
                    Err(p) => return Err(Failure::panic("c13.panic", "dumping panicked", p)),
                    Ok(Err(e)) => {
                        return Err(Failure::new(
                            "c13.automata",
                            format!("simple build {} ({}): the scanner from add_patterns(..).build() is not equivalent to the uncached one: {}", step, kind, e),
                        ))
                    }
                    Ok(Ok(())) => {}
                }
                for input in &case.inputs {
                    let r = guard(|| {
                        let ta: Vec<Tok> = a.find_iter(input).map(|m| Tok::of(&m)).collect();
                        let tb: Vec<Tok> = b.find_iter(input).map(|m| Tok::of(&m)).collect();
                        (ta, tb)
                    });
                    if let Ok((ta, tb)) = r {
                        if ta != tb {
                            return Err(Failure::new(
                                "c13.stream",
                                format!("simple build {} ({}): token stream on {:?} differs between add_patterns(..).build() and the uncached build", step, kind, input),
                            )
                            .exp_obs(tb, ta));
                        }
                        st.count("streams_compared");
                    }
                }
            }
        }
    }
    Ok(st)
}

fn check_sweep(case: &Case) -> CheckResult {
    let n = case.extra["n"].as_u64().unwrap_or(100).clamp(3, 20_000) as usize;
    let nonce = NONCE.fetch_add(1, Ordering::Relaxed);
    let probe = "aab bc abc a";
    let mk = |i: usize| {
        vec![scnr::ScannerMode::new(
            &format!("S{}_{}", nonce, i),
            vec![
                scnr::Pattern::new(format!("a{{{}}}", 1 + i % 3), 1),
                scnr::Pattern::new("[a-c]+".to_string(), 2 + i),
                scnr::Pattern::new("b".to_string(), 0)
                    .with_lookahead(scnr::Lookahead::new(i % 2 == 0, "c".to_string())),
            ],
            vec![],
        )]
    };
    let mut st = CaseStats::default();
    let tokens = |s: &scnr::Scanner| -> Vec<Tok> { s.find_iter(probe).map(|m| Tok::of(&m)).collect() };
    let mut expected: Vec<Vec<Tok>> = Vec::with_capacity(n + 2);
    let check_one = |i: usize, phase: &str, expected: &mut Vec<Vec<Tok>>| -> Result<(), Failure> {
        let modes = mk(i);
        let r = guard(|| {
            let a = scnr::ScannerBuilder::new().add_scanner_modes(&modes).build();
            let b = if i >= expected.len() {
                Some(scnr::ScannerBuilder::new().add_scanner_modes(&modes).build_uncached())
            } else {
                None
            };
            (a, b)
        });
        let (a, b) = match r {
            Err(p) => return Err(Failure::panic("c13.panic", format!("sweep {}: build of configuration {} panicked", phase, i), p)),
            Ok(x) => x,
        };
        if let Some(b) = b {
            match b {
                Ok(b) => expected.push(tokens(&b)),
                Err(e) => return Err(Failure::new("c13.outcome", format!("sweep: configuration {} does not build without the cache: {}", i, e))),
            }
        }
        let a = a.map_err(|e| Failure::new("c13.outcome", format!("sweep {}: build() of configuration {} fails: {}", phase, i, e)))?;
        let got = tokens(&a);
        if got != expected[i] || a.mode_name(0) != Some(&format!("S{}_{}", nonce, i)) {
            return Err(Failure::new(
                "c13.stream",
                format!("sweep over {} configurations, {}: build() of configuration {} returned the scanner of another configuration ({:?})", n, phase, i, a.mode_name(0)),
            )
            .exp_obs(&expected[i], &got));
        }
        Ok(())
    };
    for i in 0..n {
        check_one(i, "first pass", &mut expected)?;
    }
    for i in [1usize, 0, 2, n / 2] {
        check_one(i.min(n - 1), "early hits", &mut expected)?;
    }
    for i in n..n + 2 {
        check_one(i, "two more", &mut expected)?;
    }
    for i in 0..n + 2 {
        check_one(i, "second pass", &mut expected)?;
    }
    // and backwards
    for i in (0..n + 2).rev() {
        check_one(i, "third pass", &mut expected)?;
    }
    st.add("sweep_builds", (3 * n + 10) as u64);
    st.count("sweep_cases");
    st.nontrivial = true;
    Ok(st)
}

impl Check for C13 {
    fn id(&self) -> &'static str {
        "C13"
    }
    fn rule(&self) -> &'static str {
        "case = sequence of 3-10 builds drawn with repetition from a pool made of a base configuration, 2-4 near-identical variants (one token type changed, two patterns swapped, lookahead added / removed / polarity flipped / pattern changed, transition added / retargeted, mode renamed, one pattern changed, one mode appended, last mode dropped, a transition changed so that the configuration collides with the base under the cache map's hasher, a lookahead moved into the regex text as scnr's Display for Pattern renders it, two neighbouring patterns merged into one regex that spells out 'p1 <sep> t1 <sep> p2' for a family of one-line renderings), an unrelated configuration and failing configurations (syntax error or unsupported construct in first / last pattern or lookahead of any mode, or in one more mode appended to the base); mode names carry a per-execution nonce so that executions never meet each other's cache entries; oracle = every build() versus build_uncached() of the same modes: same Ok/Err, equal mode_name, equal token streams on probe inputs sampled from the languages of ALL pool members, and equivalent automata (identical dumps with class predicates compared on a probe set of ~600 characters, or - when dumps differ, and always for the last build of every fourth case - exact language equivalence per mode and lookahead over the alphabet atoms); a quarter of the cases instead drive the simple builder add_patterns(..).build() with pattern lists that are prefixes / extensions of each other, one pattern changed, two swapped, empty, failing (a nonce pattern stands first), compared with the same patterns built without the cache; fixed sweep cases build 70 ... 1 100 (thorough: 9 000) distinct configurations, hit a few early ones, build two more and re-build all of them twice, each time compared with the uncached scanner; non-trivial = a variant is built after its sibling was cached, or a valid build follows a failing one"
    }
    fn nondeterministic(&self) -> bool {
        // "whatever was built before" includes the builds of the other cases of this process (the
        // cache is process-wide): a scanner spoilt by what another case left behind need not be
        // spoilt again when the case runs alone
        true
    }
    fn cases(&self, thorough: bool) -> usize {
        if thorough {
            120_000
        } else {
            4_000
        }
    }
    fn fixed_cases(&self, thorough: bool) -> Vec<Case> {
        // sweeps over many distinct configurations (a bounded cache / replacement policy only acts
        // beyond its capacity): build n, hit a few early ones, build some more, re-build all
        let mut ns = vec![70usize, 140, 300, 600, 1100];
        if thorough {
            ns.extend([2100, 4200, 9000]);
        }
        ns.into_iter()
            .map(|n| Case {
                extra: json!({"kind": "sweep", "n": n}),
                ..Case::default()
            })
            .collect()
    }
    fn generate(&self, d: &mut Dec, thorough: bool) -> Case {
        let p = GenParams {
            max_pats: 3,
            max_depth: 3,
            ..GenParams::for_tier(thorough)
        }
        .with_lookaheads(70)
        .with_modes(2);
        if d.chance(64) {
            return gen_simple_case(d, &p);
        }
        let base = gen::gen_modes(d, &p);
        let mut pool: Vec<(Vec<ModeSpec>, String)> = vec![(base.clone(), "base".into())];
        for _ in 0..2 + d.below(3) {
            let (v, kind) = variant(d, &base, &p);
            pool.push((v, kind.into()));
        }
        if d.chance(100) {
            pool.push((gen::gen_modes(d, &p), "unrelated".into()));
        }
        for _ in 0..d.weighted(&[3, 4, 2]) {
            pool.push((failing(d, &base), "failing".into()));
        }
        let long = d.chance(12);
        if long {
            // a long sequence over a larger pool (a cache with a size limit or an eviction policy
            // would only show beyond some number of entries)
            for _ in 0..10 + d.below(60) {
                let (v, kind) = variant(d, &base, &p);
                pool.push((v, kind.into()));
            }
        }
        let n = if long { 40 + d.below(160) } else { 3 + d.below(8) };
        let seq: Vec<usize> = (0..n).map(|_| d.below(pool.len())).collect();
        let mut inputs = Vec::new();
        for (modes, kind) in pool.iter().take(8) {
            if kind == "failing" || kind.starts_with("text_twin") {
                continue;
            }
            let c = Case {
                modes: modes.clone(),
                ..Case::default()
            };
            let model = c.model();
            inputs.push(gen::gen_input(d, &model, 16));
        }
        let exact = d.chance(64);
        Case {
            modes: vec![],
            inputs,
            extra: json!({
                "pool": pool.iter().map(|(m, k)| json!({"kind": k, "modes": m.iter().map(|x| x.to_json()).collect::<Vec<_>>()})).collect::<Vec<_>>(),
                "seq": seq,
                "exact": exact,
            }),
            ..Case::default()
        }
    }
    fn extra_shrinks(&self, case: &Case) -> Vec<Case> {
        let mut out = Vec::new();
        if let Some(seq) = case.extra["seq"].as_array() {
            for i in (0..seq.len()).rev() {
                let mut s = seq.clone();
                s.remove(i);
                let mut c = case.clone();
                c.extra["seq"] = Value::Array(s);
                out.push(c);
            }
        }
        out
    }
    fn check(&self, case: &Case) -> CheckResult {
        if case.extra["kind"].as_str() == Some("simple") {
            return check_simple(case);
        }
        if case.extra["kind"].as_str() == Some("sweep") {
            return check_sweep(case);
        }
        let pool = match pool_of(case) {
            Ok(p) => p,
            Err(_) => return Ok(discard("discard_shape")),
        };
        let Some(seq) = case.extra["seq"].as_array() else {
            return Ok(discard("discard_shape"));
        };
        let seq: Vec<usize> = seq.iter().filter_map(|x| x.as_u64()).map(|x| x as usize).collect();
        if seq.iter().any(|i| *i >= pool.len()) {
            return Ok(discard("discard_shape"));
        }
        for (modes, kind) in &pool {
            let c = Case {
                modes: modes.clone(),
                ..Case::default()
            };
            if kind != "failing" && !kind.starts_with("text_twin") && kind != "transitions_reordered" && domain_ok(&c).is_err() {
                return Ok(discard("discard_domain"));
            }
            if modes.is_empty() || modes.iter().any(|m| m.pats.is_empty()) {
                return Ok(discard("discard_shape"));
            }
            for m in modes {
                if (kind != "transitions_reordered" && !m.transitions.windows(2).all(|w| w[0].0 < w[1].0))
                    || m.transitions.iter().any(|t| t.1 >= modes.len())
                {
                    return Ok(discard("discard_transitions"));
                }
            }
        }
        let exact = case.extra["exact"].as_bool().unwrap_or(false);
        let nonce = NONCE.fetch_add(1, Ordering::Relaxed);
        let probes = probe_chars(&pool);
        let mut st = CaseStats::default();
        let mut built_kinds: Vec<usize> = Vec::new();
        let mut failed_before = false;
        for (step, &i) in seq.iter().enumerate() {
            let (modes, kind) = &pool[i];
            let named: Vec<ModeSpec> = modes
                .iter()
                .map(|m| ModeSpec {
                    name: format!("{}#{}", m.name, nonce),
                    ..m.clone()
                })
                .collect();
            // through serde, so that transition lists arrive exactly as written
            let sm: Vec<scnr::ScannerMode> = match named
                .iter()
                .map(|m| serde_json::from_value::<scnr::ScannerMode>(m.to_json()))
                .collect::<Result<Vec<_>, _>>()
            {
                Ok(v) => v,
                Err(e) => crate::run::harness_error(&format!("C13: configuration does not deserialize: {}", e)),
            };
            let r = guard(|| {
                (
                    scnr::ScannerBuilder::new().add_scanner_modes(&sm).build(),
                    scnr::ScannerBuilder::new().add_scanner_modes(&sm).build_uncached(),
                )
            });
            let (a, b) = match r {
                Err(p) => return Err(Failure::panic("c13.panic", format!("build {} of the sequence panicked", step), p)),
                Ok(x) => x,
            };
            // sibling already cached?
            if kind != "failing" && built_kinds.iter().any(|j| *j != i && pool[*j].1 != "failing" && pool[*j].1 != "unrelated") && kind != "unrelated" {
                st.count("variant_after_cached_sibling");
                st.nontrivial = true;
            }
            if kind != "failing" && failed_before {
                st.count("valid_after_failing");
                st.nontrivial = true;
            }
            if built_kinds.contains(&i) {
                st.count("cache_hits_expected");
            }
            st.count("builds");
            st.flag("sequences_longer_than_64_builds", step == 64);
            match (a, b) {
                (Err(_), Err(_)) => {
                    st.count("failing_builds");
                    failed_before = true;
                }
                (Ok(_), Err(e)) => {
                    return Err(Failure::new(
                        "c13.outcome",
                        format!("build {}: build() succeeds but build_uncached() fails ({}) for {}", step, e, kind),
                    ))
                }
                (Err(e), Ok(_)) => {
                    return Err(Failure::new(
                        "c13.outcome",
                        format!("build {}: build() fails ({}) but build_uncached() succeeds for {}", step, e, kind),
                    ))
                }
                (Ok(a), Ok(b)) => {
                    built_kinds.push(i);
                    for mi in 0..named.len() + 1 {
                        let (na, nb) = (a.mode_name(mi).map(|s| s.to_string()), b.mode_name(mi).map(|s| s.to_string()));
                        let exp = named.get(mi).map(|m| m.name.clone());
                        if na != exp || nb != exp {
                            return Err(Failure::new("c13.mode_name", format!("build {} ({}): mode_name({})", step, kind, mi))
                                .exp_obs(exp, (na, nb)));
                        }
                    }
                    let r = guard(|| -> Result<bool, String> {
                        let (da, db) = (a.verif_dump(), b.verif_dump());
                        if da == db {
                            let n = a.verif_class_count();
                            if n != b.verif_class_count() {
                                return Err("different number of registered classes".into());
                            }
                            for id in 0..n {
                                for c in &probes {
                                    if a.verif_class_matches(id, *c) != b.verif_class_matches(id, *c) {
                                        return Err(format!("class {} differs on {:?}", id, c));
                                    }
                                }
                            }
                            Ok(true)
                        } else {
                            scanners_equivalent(&a, &b).map(|_| false)
                        }
                    });
                    match r {
                        Err(p) => return Err(Failure::panic("c13.panic", "dumping panicked", p)),
                        Ok(Err(e)) => {
                            return Err(Failure::new(
                                "c13.automata",
                                format!("build {} ({}): the cached scanner is not equivalent to the uncached one: {}", step, kind, e),
                            ))
                        }
                        Ok(Ok(identical)) => st.flag("identical_dumps", identical),
                    }
                    if exact && step + 1 == seq.len() {
                        match guard(|| scanners_equivalent(&a, &b)) {
                            Err(p) => return Err(Failure::panic("c13.panic", "dumping panicked", p)),
                            Ok(Err(e)) => {
                                return Err(Failure::new(
                                    "c13.automata",
                                    format!("build {} ({}): the cached scanner is not equivalent to the uncached one: {}", step, kind, e),
                                ))
                            }
                            Ok(Ok(n)) => {
                                st.count("exact_equivalence_checks");
                                st.add("product_states", n as u64);
                            }
                        }
                    }
                    for input in &case.inputs {
                        let r = guard(|| {
                            let ta: Vec<Tok> = a.find_iter(input).map(|m| Tok::of(&m)).collect();
                            let tb: Vec<Tok> = b.find_iter(input).map(|m| Tok::of(&m)).collect();
                            (ta, tb)
                        });
                        match r {
                            Err(_) => st.count("scan_panicked"),
                            Ok((ta, tb)) => {
                                if ta != tb {
                                    return Err(Failure::new(
                                        "c13.stream",
                                        format!("build {} ({}): token stream on {:?} differs between build() and build_uncached()", step, kind, input),
                                    )
                                    .exp_obs(tb, ta));
                                }
                                st.count("streams_compared");
                            }
                        }
                    }
                }
            }
        }
        Ok(st)
    }
}
