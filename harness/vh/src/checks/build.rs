//! C15: unsupported regex features are rejected, never mis-compiled; build is total.

use super::common::*;
use crate::case::*;
use crate::dec::Dec;
use crate::gen::{self, GenParams};
use crate::run::{guard, CaseStats, Check, CheckResult, Failure};
use crate::rx::{self, BuildVerdict, Rx};
use serde_json::json;

pub struct C15;

pub const TOKENS: &[&str] = &[
    "(", ")", "[", "]", "|", "*", "+", "?", "{2}", "{1,", "{1,3}", "{0}", "\\b", "\\B", "^", "$",
    "(?i)", "(?i:", "(?=", "(?!", "(?<=", "(?:", "(?P<n>", "\\p{L}", "\\p{Xyz}", "\\pX", "\\pL",
    "\\p{Alphabetic}", "\\p{sc=Greek}", "\\P{Greek}", "[:alpha:]", "[[:alpha:]]", "&&", "--", "~~",
    ".", "\\\\", "\\", "a", "b", "é", "0", "-", "^", "\\d", "\\W", "\\x41", "\\u{1F600}", "\\z",
    "\\A", "*?", "+?", "??", "{2}?", "\\<", "\\>", "\\1", "\"", " ", "\n", "#", "(?x)", "(?-i:",
    "\\Q", "\\E", "\\N", "[^", "a-c", "\\n", "\\.", "\\p\u{14C}", "\\P\u{143}", "\\p{\u{3A9}mega}", "\\pl", "\\pM",
    "\\p\u{24E}", "\\p\u{15A}",
];

/// Unsupported constructs to plant (b): each must make the build fail wherever it stands.
pub const PLANTS: &[&str] = &[
    "\\b", "\\B", "^", "$", "\\A", "\\z", "(?i)", "(?i:a)", "(?-i:a)", "(?s:.)", "a*?", "a+?",
    "a??", "a{1,2}?", "\\p{sc=Greek}", "\\p{Script=Greek}", "\\p{gc:L}", "\\p{Xyz}", "\\pX",
    "[\\p{Xyz}]", "[a&&\\p{sc=Greek}]", "\\P{Foo}", "(?x)", "\\b{start}", "\\<", "(?m)",
    // one-letter class names that only agree with a supported one in their low byte, lower case,
    // non-ASCII names
    "\\p\u{14C}", "\\P\u{14C}", "\\p\u{24E}", "\\p\u{15A}", "\\p\u{150}", "\\p\u{143}",
    "[a\\p\u{14C}]", "\\p{\u{3A9}mega}", "[a\\p{Xyz}]", "[^a-z\\p{sc=Greek}]", "[a[b\\pX]]",
];

fn plant(d: &mut Dec, r: &Rx, snippet: &str, depth: &mut usize) -> Rx {
    // descend with some probability; otherwise plant here by concatenation / alternation
    match r {
        Rx::Concat(v) | Rx::Alt(v) if d.chance(170) && !v.is_empty() => {
            let i = d.below(v.len());
            let mut w = v.clone();
            *depth += 1;
            w[i] = plant(d, &v[i], snippet, depth);
            if matches!(r, Rx::Concat(_)) {
                Rx::Concat(w)
            } else {
                Rx::Alt(w)
            }
        }
        Rx::Repeat(inner, a, b) if d.chance(170) => {
            *depth += 1;
            Rx::Repeat(Box::new(plant(d, inner, snippet, depth)), *a, *b)
        }
        Rx::Group(inner, k) if d.chance(200) => {
            *depth += 1;
            Rx::Group(Box::new(plant(d, inner, snippet, depth)), *k)
        }
        _ => {
            let raw = Rx::Raw(snippet.to_string());
            match d.below(4) {
                0 => Rx::Concat(vec![r.clone(), raw]),
                1 => Rx::Concat(vec![raw, r.clone()]),
                2 => Rx::Alt(vec![r.clone(), raw]),
                _ => Rx::Repeat(Box::new(Rx::Group(Box::new(Rx::Concat(vec![raw, r.clone()])), rx::GroupKind::Capture)), 0, None),
            }
        }
    }
}

impl Check for C15 {
    fn id(&self) -> &'static str {
        "C15"
    }
    fn rule(&self) -> &'static str {
        "case = configuration (1-3 modes) in which (a) one pattern or lookahead is a token-level random string over the regex meta-alphabet (<= 14 tokens), or (b) one supported expression carries exactly one unsupported construct (anchor, word boundary, flags, flagged group, non-greedy repetition, valued or nonsense Unicode class) planted at a random depth (inside repetition / group / alternation / class / lookahead / later mode), or (c) only supported expressions; oracle = verdict from regex-syntax's parse plus a walk of the whole AST: syntax error or documented-unsupported construct => build must return Err; only literals, dot, bracketed / Perl classes, groups, alternation, concatenation, greedy repetition => must return Ok; a plausible Unicode class name => either; never a panic; afterwards a valid configuration must still build through the cache and scan; non-trivial = (b) with the construct at depth >= 2 or outside the first pattern of the first mode, or (a) whose random string parses"
    }
    fn cases(&self, thorough: bool) -> usize {
        if thorough {
            1_000_000
        } else {
            80_000
        }
    }
    fn generate(&self, d: &mut Dec, thorough: bool) -> Case {
        let p = GenParams {
            max_pats: 3,
            max_depth: 3,
            ..GenParams::for_tier(thorough)
        }
        .with_lookaheads(60)
        .with_modes(3);
        let mut modes = gen::gen_modes(d, &p);
        if d.chance(6) {
            // sizes: deep nesting, long literal runs, many alternatives, many modes
            let mi = d.below(modes.len());
            let pi = d.below(modes[mi].pats.len());
            let base = modes[mi].pats[pi].rx.clone();
            modes[mi].pats[pi].rx = match d.below(4) {
                0 => {
                    let mut r = base;
                    for _ in 0..*d.pick(&[17usize, 33, 65, 100]) {
                        r = Rx::Group(Box::new(r), *d.pick(&[rx::GroupKind::Capture, rx::GroupKind::NonCapture]));
                    }
                    r
                }
                1 => {
                    let n = *d.pick(&[255usize, 256, 257, 300]);
                    Rx::Concat((0..n).map(|i| Rx::Lit(if i % 2 == 0 { 'a' } else { 'b' }, rx::LitForm::Verbatim)).collect())
                }
                2 => {
                    let n = *d.pick(&[17usize, 65, 130]);
                    let wide = gen::wide_alphabet();
                    Rx::Alt((0..n).map(|i| Rx::Lit(wide[i % wide.len()], rx::LitForm::Verbatim)).collect())
                }
                _ => base,
            };
            if d.chance(64) {
                let extra = *d.pick(&[13usize, 16, 17, 30]);
                for k in 0..extra {
                    let mut m = modes[0].clone();
                    m.name = format!("X{}", k);
                    m.transitions.clear();
                    modes.push(m);
                }
            }
        }
        let kind = d.weighted(&[2, 5, 5]);
        let kind_name = ["supported", "token_string", "planted"][kind];
        let mut extra = json!({ "kind": kind_name });
        if kind > 0 {
            // choose the slot
            let mi = d.below(modes.len());
            let pi = d.below(modes[mi].pats.len());
            let in_la = d.chance(70);
            if in_la && modes[mi].pats[pi].la.is_none() {
                modes[mi].pats[pi].la = Some(LaSpec {
                    positive: d.bool(),
                    rx: Rx::Lit('a', rx::LitForm::Verbatim),
                });
            }
            let slot: &mut Rx = if in_la {
                &mut modes[mi].pats[pi].la.as_mut().unwrap().rx
            } else {
                &mut modes[mi].pats[pi].rx
            };
            if kind == 1 {
                let n = 1 + d.weighted(&[6, 6, 5, 4, 3, 2, 2, 1, 1, 1, 1, 1, 1, 1]);
                let mut s = String::new();
                for _ in 0..n {
                    let t: &str = TOKENS[d.below(TOKENS.len())];
                    s.push_str(t);
                }
                *slot = Rx::Raw(s);
                extra["slot"] = json!([mi, pi, in_la]);
            } else if d.chance(40) {
                // an unsupported (valued) class next to the supported class of the same name: a
                // registry that identifies them would skip the validation of the second one
                let (good, bad) = *d.pick(&[
                    ("\\p{Alphabetic}", "\\p{Alphabetic=No}"),
                    ("\\P{White_Space}", "\\p{White_Space!=Yes}"),
                    ("\\p{Lowercase}", "\\p{Lowercase:No}"),
                    ("\\pL", "\\p{L=x}"),
                    ("[\\p{Math}a]", "[\\p{Math=Yes}a]"),
                    // spellings a loose matcher would identify with a supported name
                    ("\\p{Alphabetic}", "\\p{alphabetic}"),
                    ("\\p{Lowercase}", "\\p{LOWERCASE}"),
                    ("\\P{White_Space}", "\\P{white_space}"),
                    ("\\p{White_Space}", "\\p{WhiteSpace}"),
                    ("\\p{Uppercase}", "\\p{ Uppercase}"),
                ]);
                // the supported one goes into the first pattern of the first mode (registered first)
                modes[0].pats[0].rx = Rx::Concat(vec![modes[0].pats[0].rx.clone(), Rx::Raw(good.to_string())]);
                let (mi, pi, in_la) = (mi, pi, in_la);
                let slot: &mut Rx = if in_la {
                    &mut modes[mi].pats[pi].la.as_mut().unwrap().rx
                } else {
                    &mut modes[mi].pats[pi].rx
                };
                let old = slot.clone();
                *slot = Rx::Concat(vec![old, Rx::Raw(bad.to_string())]);
                extra["slot"] = json!([mi, pi, in_la]);
                extra["depth"] = json!(1);
                extra["snippet"] = json!(bad);
            } else {
                let snippet = *d.pick(PLANTS);
                let mut depth = 0;
                let planted = plant(d, &slot.clone(), snippet, &mut depth);
                *slot = planted;
                extra["slot"] = json!([mi, pi, in_la]);
                extra["depth"] = json!(depth);
                extra["snippet"] = json!(snippet);
            }
        }
        if kind > 0 && d.chance(24) {
            // a later pattern of the same mode shares the token type of the pattern that carries
            // the plant and has a lookahead of its own (per-token-type tables must not let the
            // later entry stand in for the earlier one)
            if let Some(slot) = extra.get("slot").and_then(|v| v.as_array()).cloned() {
                let (mi, pi) = (slot[0].as_u64().unwrap_or(0) as usize, slot[1].as_u64().unwrap_or(0) as usize);
                if mi < modes.len() && pi < modes[mi].pats.len() {
                    let tt = modes[mi].pats[pi].tt;
                    let twin = PatSpec {
                        rx: Rx::Lit(gen::gen_char(d), rx::LitForm::Verbatim),
                        tt,
                        la: Some(LaSpec {
                            positive: d.bool(),
                            rx: Rx::Lit('q', rx::LitForm::Verbatim),
                        }),
                    };
                    let at = pi + 1 + d.below(modes[mi].pats.len() - pi);
                    modes[mi].pats.insert(at, twin);
                    extra["shared_token_type"] = json!(true);
                }
            }
        }
        if kind == 0 && d.chance(40) {
            // look-around syntax that is the printed form of a legal configuration: pattern P with
            // a Lookahead member L is built first (through the cache), then the same configuration
            // with the pattern text `P(?=L)` / `P(?!L)` and no member - it must still be rejected
            let mi = d.below(modes.len());
            let pi = d.below(modes[mi].pats.len());
            if modes[mi].pats[pi].la.is_none() {
                modes[mi].pats[pi].la = Some(LaSpec {
                    positive: d.bool(),
                    rx: Rx::Lit(gen::gen_char(d), rx::LitForm::Verbatim),
                });
            }
            let twin: Vec<serde_json::Value> = modes.iter().map(|m| m.to_json()).collect();
            let la = modes[mi].pats[pi].la.take().unwrap();
            let text = format!(
                "{}(?{}{})",
                rx::print(&modes[mi].pats[pi].rx),
                if la.positive { "=" } else { "!" },
                rx::print(&la.rx)
            );
            modes[mi].pats[pi].rx = Rx::Raw(text);
            extra = json!({"kind": "lookaround_twin", "twin_modes": twin, "slot": [mi, pi, false]});
        }
        Case {
            modes,
            extra,
            ..Case::default()
        }
    }
    fn check(&self, case: &Case) -> CheckResult {
        if let Some(twin) = case.extra.get("twin_modes").and_then(|v| v.as_array()) {
            // the legal twin is built (and cached) first; its verdict is not this case's business
            let modes: Result<Vec<ModeSpec>, String> = twin.iter().map(ModeSpec::from_json).collect();
            if let Ok(modes) = modes {
                let t = Case { modes, ..Case::default() };
                let _ = guard(|| t.build().map(|_| ()));
            }
        }
        if case.modes.is_empty() || case.modes.iter().any(|m| m.pats.is_empty()) {
            return Ok(discard("discard_shape"));
        }
        for m in &case.modes {
            if !m.transitions.windows(2).all(|w| w[0].0 < w[1].0)
                || m.transitions.iter().any(|(_, t)| *t >= case.modes.len())
            {
                return Ok(discard("discard_transitions"));
            }
        }
        let mut st = CaseStats::default();
        // expected verdict of the configuration
        let mut must_err: Option<String> = None;
        let mut either = false;
        let mut any_parses_raw = false;
        for m in &case.modes {
            for p in &m.pats {
                let mut strings = vec![(rx::print(&p.rx), matches!(p.rx, Rx::Raw(_)))];
                if let Some(la) = &p.la {
                    strings.push((rx::print(&la.rx), matches!(la.rx, Rx::Raw(_))));
                }
                for (s, is_raw) in strings {
                    match rx::build_verdict(&s) {
                        BuildVerdict::MustErr(why) => {
                            must_err.get_or_insert(format!("{:?}: {}", s, why));
                        }
                        BuildVerdict::Either => {
                            // the statement leaves open whether this string builds - but not that
                            // the answer depends on its neighbours: if it is rejected when it stands
                            // alone it must be rejected here too
                            let alone = guard(|| {
                                scnr::ScannerBuilder::new()
                                    .add_scanner_mode(scnr::ScannerMode::new("ALONE", vec![scnr::Pattern::new(s.clone(), 0)], vec![]))
                                    .build_uncached()
                                    .map(|_| ())
                            });
                            if let Ok(Err(e)) = alone {
                                must_err.get_or_insert(format!("{:?}, which is rejected when it stands alone ({})", s, e));
                                st.count("rejected_alone");
                            } else {
                                either = true;
                            }
                            if is_raw {
                                any_parses_raw = true;
                            }
                        }
                        BuildVerdict::MustOk => {
                            if is_raw {
                                any_parses_raw = true;
                            }
                        }
                    }
                }
            }
        }
        let r = guard(|| case.build());
        let built = match r {
            Err(p) => {
                return Err(Failure::panic(
                    "c15.panic",
                    "building the scanner panicked",
                    p,
                ))
            }
            Ok(r) => r,
        };
        match (&must_err, &built) {
            (Some(why), Ok(_)) => {
                return Err(Failure::new(
                    "c15.accepted_unsupported",
                    format!("build succeeded although the configuration contains {}", why),
                )
                .exp_obs("Err", "Ok"));
            }
            (None, Err(e)) if !either => {
                return Err(Failure::new(
                    "c15.rejected_supported",
                    format!("build failed although every pattern is made of supported constructs only: {}", e),
                )
                .exp_obs("Ok", "Err"));
            }
            _ => {}
        }
        st.flag("expected_err", must_err.is_some());
        st.flag("expected_ok", must_err.is_none() && !either);
        st.flag("either", must_err.is_none() && either);
        st.flag("built_ok", built.is_ok());
        // the cache must still serve a valid build
        let later = guard(|| {
            scnr::ScannerBuilder::new()
                .add_patterns(["a", "b+"])
                .build()
                .map(|s| s.find_iter("abb").count())
        });
        match later {
            Err(p) => return Err(Failure::panic("c15.later_build_panic", "a later valid build panicked", p)),
            Ok(Err(e)) => {
                return Err(Failure::new("c15.later_build", format!("a later valid build failed: {}", e)))
            }
            Ok(Ok(2)) => {}
            Ok(Ok(n)) => {
                return Err(Failure::new("c15.later_build", "a later valid build scans wrongly").exp_obs(2, n))
            }
        }
        let kind = case.extra["kind"].as_str().unwrap_or("");
        st.flag("kind_token_string", kind == "token_string");
        st.flag("kind_planted", kind == "planted");
        st.flag("kind_supported", kind == "supported");
        match kind {
            "token_string" => {
                st.flag("token_string_parses", any_parses_raw);
                st.nontrivial = any_parses_raw;
            }
            "planted" => {
                let depth = case.extra["depth"].as_u64().unwrap_or(0);
                let slot = &case.extra["slot"];
                let first = slot[0].as_u64() == Some(0)
                    && slot[1].as_u64() == Some(0)
                    && slot[2].as_bool() == Some(false);
                st.flag("planted_in_lookahead", slot[2].as_bool() == Some(true));
                st.flag("planted_in_later_mode", slot[0].as_u64().unwrap_or(0) > 0);
                st.flag("planted_deep", depth >= 2);
                st.nontrivial = depth >= 2 || !first;
            }
            _ => {}
        }
        Ok(st)
    }
}
