//! C06: scanner modes switch exactly on configured token types.

use super::common::*;
use crate::case::*;
use crate::dec::Dec;
use crate::gen::{self, GenParams};
use crate::model::*;
use crate::run::{guard, CaseStats, Check, CheckResult, Failure};
use scnr::ScannerModeSwitcher;

pub struct C06;

pub fn gen_mode_graph_case(d: &mut Dec, thorough: bool, lookaheads: usize) -> Case {
    let p = GenParams {
        max_pats: 4,
        max_depth: 3,
        ..GenParams::for_tier(thorough)
    }
    .with_lookaheads(lookaheads)
    .with_modes(4);
    // three quarters of the mode graphs have at least two modes
    let p = GenParams {
        min_modes: if d.chance(192) { 2 } else { 1 },
        ..p
    };
    if d.chance(1) {
        // more than 256 modes
        let modes = gen::gen_many_modes(d);
        let mut case = Case {
            modes,
            ..Case::default()
        };
        let model = case.model();
        case.inputs.push(gen::gen_long_input(d, &model, 30, 120));
        return case;
    }
    let mut modes = gen::gen_modes(d, &p);
    let large = d.chance(p.large_per_256);
    if large {
        let mi = d.below(modes.len());
        modes[mi] = gen::gen_large_mode(d, &p, gen::MODE_NAMES[mi]);
        gen::add_many_transitions(d, &mut modes, mi);
    }
    let mut case = Case {
        modes,
        ..Case::default()
    };
    let model = case.model();
    if large && d.chance(10) {
        // offsets, token counts and line counts beyond 65 535 (on a configuration that scans in
        // linear time)
        case.modes = gen::benign_modes();
        case.inputs.push(gen::gen_huge_input(d, &model));
        return case;
    }
    if large && d.chance(40) {
        // hundreds of short tokens, rarely a mode switch
        case.modes = gen::benign_modes();
        case.inputs.push(gen::gen_medium_benign_input(d));
        return case;
    }
    if large {
        if d.chance(90) {
            // one very long token
            let (rx, input) = gen::gen_long_token(d);
            let mut tt = 41;
            while case.modes[0].pats.iter().any(|p| p.tt == tt) {
                tt += 1;
            }
            case.modes[0].pats.insert(0, PatSpec { rx, tt, la: None });
            case.inputs.push(input);
            return case;
        }
        case.inputs.push(gen::gen_long_input(d, &model, 100, 400));
        return case;
    }
    let mut input = gen::gen_input(d, &model, p.max_input_chars);
    if d.bool() {
        // longer inputs let histories travel through several modes
        input.push_str(&gen::gen_input(d, &model, p.max_input_chars));
    }
    case.inputs.push(input);
    case
}

impl Check for C06 {
    fn id(&self) -> &'static str {
        "C06"
    }
    fn rule(&self) -> &'static str {
        "case = 1-4 modes sharing token types, sorted transition tables with 0-4 entries (self-loops, transitions on token types of other modes, transitions nobody triggers), one input, a history of next | peek_n | set_mode | set_offset | with_offset (on the iterator in use) | current_mode | mode_name on an iterator plus Scanner::set_mode and creation of fresh iterators; oracle = mode-tracking model compared after every step: each returned token must be a candidate of the model's current mode, current_mode() must equal the model mode (transition target after a token with a transition, unchanged otherwise and after peeks, m after set_mode(m)), mode_name(i) the configured name or None (on the Scanner for every index, and in ~9% of the cases after a scanner with the same patterns and transitions but other mode names was built through the cache), every new iterator starts in mode 0; non-trivial = a transition fired and a token without transition was consumed in a mode != 0"
    }
    fn cases(&self, thorough: bool) -> usize {
        if thorough {
            10_000_000
        } else {
            150_000
        }
    }
    fn generate(&self, d: &mut Dec, thorough: bool) -> Case {
        let mut case = gen_mode_graph_case(d, thorough, 24);
        let nm = case.modes.len();
        if d.chance(24) {
            case.extra = serde_json::json!({"renamed_sibling": true});
        }
        let nops = 4 + d.below(if thorough { 40 } else { 26 });
        for _ in 0..nops {
            case.ops.push(match d.weighted(&[12, 3, 3, 2, 2, 1, 1, 2]) {
                7 => {
                    // repositioning (either way) must not touch the mode
                    let t = Text::new(case.input());
                    let o = t.offs[d.below(t.offs.len())];
                    if d.bool() {
                        Op::RebaseWithOffset { o }
                    } else {
                        Op::SetOffset { o }
                    }
                }
                0 => Op::Next,
                1 => Op::PeekN { n: gen::gen_peek_n(d, 5) },
                2 => Op::SetMode { m: d.below(nm) },
                3 => Op::CurrentMode,
                4 => Op::ModeName { i: d.below(nm + 2) },
                5 => Op::ScannerSetMode {
                    s: 0,
                    m: d.below(nm),
                },
                _ => Op::Create { s: 0, inp: 0 },
            });
        }
        case
    }
    fn check(&self, case: &Case) -> CheckResult {
        if let Err(r) = domain_ok(case) {
            return Ok(discard(r));
        }
        if case.inputs.len() != 1 {
            return Ok(discard("discard_shape"));
        }
        let nm = case.modes.len();
        for op in &case.ops {
            match op {
                Op::Next | Op::PeekN { .. } | Op::CurrentMode | Op::ModeName { .. } => {}
                Op::SetOffset { o } | Op::RebaseWithOffset { o }
                    if *o <= case.input().len() && case.input().is_char_boundary(*o) => {}
                Op::SetMode { m } if *m < nm => {}
                Op::ScannerSetMode { s: 0, m } if *m < nm => {}
                Op::Create { s: 0, inp: 0 } => {}
                _ => return Ok(discard("discard_op")),
            }
        }
        let mut st = CaseStats::default();
        // a scanner with the same patterns and transitions under other mode names is built
        // through the cache first: the names reported below must still be this case's
        // (the cache never evicts: the device is used at most 60 000 times per process)
        static SIBLINGS: std::sync::atomic::AtomicUsize = std::sync::atomic::AtomicUsize::new(0);
        let renamed_sibling = case.extra.get("renamed_sibling").is_some()
            && SIBLINGS.fetch_add(1, std::sync::atomic::Ordering::Relaxed) < 60_000;
        if renamed_sibling {
            let mut sib = case.clone();
            let names: Vec<String> = case.modes.iter().map(|m| m.name.clone()).collect();
            for (i, m) in sib.modes.iter_mut().enumerate() {
                m.name = if nm > 1 && names[(i + 1) % nm] != names[i] {
                    names[(i + 1) % nm].clone()
                } else {
                    format!("{}_", names[i])
                };
            }
            let _ = guard(|| sib.build().map(|_| ()));
            st.count("renamed_sibling_built_first");
        }
        let mut scanner = match build_guarded(case, renamed_sibling)? {
            Ok(s) => s,
            Err(_) => {
                st.count("build_failed");
                st.inconclusive = true;
                return Ok(st);
            }
        };
        for i in 0..nm + 2 {
            let got = scanner.mode_name(i).map(|s| s.to_string());
            let exp = case.modes.get(i).map(|m| m.name.clone());
            if got != exp {
                return Err(Failure::new("c06.mode_name", format!("Scanner::mode_name({}) differs", i)).exp_obs(exp, got));
            }
        }
        let model = case.model();
        let input = case.input();
        let text = Text::new(input);
        let n = text.len();

        let r = guard(|| -> Result<CaseStats, Failure> {
            let mut st = CaseStats::default();
            let mut it = scanner.find_iter(input);
            let mut mode = 0usize;
            let mut fired = false;
            let mut plain_in_nonzero = false;
            let expect_mode = |it: &scnr::FindMatches<'_>, mode: usize, after: &str| {
                let got = it.current_mode();
                if got != mode {
                    Err(Failure::new(
                        "c06.mode",
                        format!("current_mode() after {} differs from the mode model", after),
                    )
                    .exp_obs(mode, got))
                } else {
                    Ok(())
                }
            };
            expect_mode(&it, 0, "creating the iterator")?;
            for (step, op) in case.ops.iter().enumerate() {
                match op {
                    Op::Next => {
                        let m = it.next();
                        if let Some(m) = m {
                            let t = Tok::of(&m);
                            let Some(ci) = text.char_index(t.start) else {
                                return Err(Failure::new("c06.token", "token start not on a boundary").exp_obs("", t));
                            };
                            if ci >= n {
                                return Err(Failure::new("c06.token", "token starts at the end of the input").exp_obs("", t));
                            }
                            let (cands, _) = model.candidates(mode, &text.chars, ci);
                            if !cands
                                .iter()
                                .any(|c| c.tt == t.tt && text.offs[c.end] == t.end)
                            {
                                return Err(Failure::new(
                                    "c06.token",
                                    format!(
                                        "step {}: token is not a match of any pattern of the current mode {} ({})",
                                        step, mode, case.modes[mode].name
                                    ),
                                )
                                .exp_obs(&cands, t));
                            }
                            st.count("tokens");
                            match model.transition(mode, t.tt) {
                                Some(target) => {
                                    fired = true;
                                    st.count("transitions_fired");
                                    st.flag("self_loop_fired", target == mode);
                                    mode = target;
                                }
                                None => {
                                    if mode != 0 {
                                        plain_in_nonzero = true;
                                    }
                                }
                            }
                            expect_mode(&it, mode, "next() returned a token")?;
                        } else {
                            expect_mode(&it, mode, "next() returned None")?;
                        }
                    }
                    Op::PeekN { n: k } => {
                        let _ = it.peek_n(*k);
                        st.count("peeks");
                        expect_mode(&it, mode, "peek_n")?;
                    }
                    Op::SetMode { m } => {
                        it.set_mode(*m);
                        mode = *m;
                        st.count("set_mode_calls");
                        expect_mode(&it, mode, "set_mode")?;
                    }
                    Op::CurrentMode => expect_mode(&it, mode, "no call at all")?,
                    Op::ModeName { i } => {
                        let got = it.mode_name(*i).map(|s| s.to_string());
                        let exp = case.modes.get(*i).map(|m| m.name.clone());
                        if got != exp {
                            return Err(Failure::new("c06.mode_name", "mode_name differs").exp_obs(exp, got));
                        }
                    }
                    Op::ScannerSetMode { m, .. } => {
                        scanner.set_mode(*m);
                        st.count("scanner_set_mode_calls");
                        // must not affect the live iterator
                        expect_mode(&it, mode, "Scanner::set_mode on the scanner")?;
                    }
                    Op::SetOffset { o } => {
                        it.set_offset(*o);
                        st.count("repositionings");
                        expect_mode(&it, mode, "set_offset")?;
                    }
                    Op::RebaseWithOffset { o } => {
                        it = it.with_offset(*o);
                        st.count("repositionings");
                        expect_mode(&it, mode, "with_offset on the iterator in use")?;
                    }
                    Op::Create { .. } => {
                        it = scanner.find_iter(input);
                        mode = 0;
                        st.count("fresh_iterators");
                        expect_mode(&it, 0, "creating a fresh iterator")?;
                    }
                    _ => {}
                }
            }
            st.nontrivial = fired && plain_in_nonzero;
            Ok(st)
        });
        match r {
            Err(p) => Err(Failure::panic("c06.panic", "history panicked", p)),
            Ok(Err(f)) => Err(f),
            Ok(Ok(s2)) => {
                st.counters.extend(s2.counters);
                st.nontrivial = s2.nontrivial;
                st.flag(
                    "shared_token_types",
                    case.modes.len() > 1
                        && case.modes[1..].iter().any(|m| {
                            m.pats
                                .iter()
                                .any(|p| case.modes[0].pats.iter().any(|q| q.tt == p.tt))
                        }),
                );
                Ok(st)
            }
        }
    }
}
