//! C18: the DOT export is a faithful picture of the compiled automata.

use super::common::*;
use crate::case::*;
use crate::dec::Dec;
use crate::dot::{self, Graph};
use crate::gen::{self, GenParams};
use crate::run::{guard, CaseStats, Check, CheckResult, Failure};
use crate::rx::{self, Rx};
use scnr::verif::AutomatonDump;
use serde_json::json;
use std::collections::{BTreeMap, HashMap};
use std::path::{Path, PathBuf};
use std::sync::atomic::{AtomicU64, Ordering};

pub struct C18;

static SCRATCH: AtomicU64 = AtomicU64::new(0);

fn scratch_dir() -> PathBuf {
    let n = SCRATCH.fetch_add(1, Ordering::Relaxed);
    let base = std::env::var("VERIF_SCRATCH").unwrap_or_else(|_| "/verif/harness/target/scratch".to_string());
    Path::new(&base).join(format!("c18_{}_{}", std::process::id(), n))
}

/// leading state number and optional " T<t>" of a node label
fn parse_node_label(l: &str) -> Option<(usize, Option<usize>)> {
    let mut parts = l.split_whitespace();
    let state: usize = parts.next()?.parse().ok()?;
    match parts.next() {
        None => Some((state, None)),
        Some(t) => {
            let tt: usize = t.strip_prefix('T')?.parse().ok()?;
            if parts.next().is_some() {
                return None;
            }
            Some((state, Some(tt)))
        }
    }
}

/// id in the trailing "(C#id)" of an edge label
fn parse_edge_class(l: &str) -> Option<usize> {
    let l = l.trim_end();
    let inner = l.strip_suffix(')')?;
    let at = inner.rfind("(C#")?;
    inner[at + 3..].parse().ok()
}

/// Compares one (sub)graph with one automaton by content.
fn compare_graph(g: &Graph, a: &AutomatonDump, what: &str) -> Result<(), Failure> {
    let fail = |msg: String| Failure::new("c18.content", format!("{}: {}", what, msg));
    let mut state_of: HashMap<&str, usize> = HashMap::new();
    let mut seen = vec![false; a.states];
    for (id, attrs) in &g.nodes {
        let label = dot::attr(attrs, "label").ok_or_else(|| fail(format!("node {:?} has no label", id)))?;
        let (state, tt) = parse_node_label(label)
            .ok_or_else(|| fail(format!("node label {:?} does not start with a state number", label)))?;
        if state >= a.states {
            return Err(fail(format!("node for state {} but the automaton has {} states", state, a.states)));
        }
        if seen[state] {
            return Err(fail(format!("two nodes for state {}", state)));
        }
        seen[state] = true;
        if state_of.insert(id.as_str(), state).is_some() {
            return Err(fail(format!("node id {:?} declared twice", id)));
        }
        if state != 0 {
            let expect = a.accepting[state];
            if tt != expect {
                return Err(fail(format!(
                    "state {}: accepting label T{:?} but the automaton says {:?}",
                    state, tt, expect
                )));
            }
        }
    }
    if let Some(missing) = seen.iter().position(|s| !*s) {
        return Err(fail(format!("no node for state {}", missing)));
    }
    let mut edges: BTreeMap<(usize, usize, usize), i64> = BTreeMap::new();
    for (f, t, attrs) in &g.edges {
        let sf = *state_of.get(f.as_str()).ok_or_else(|| fail(format!("edge from undeclared node {:?}", f)))?;
        let stt = *state_of.get(t.as_str()).ok_or_else(|| fail(format!("edge to undeclared node {:?}", t)))?;
        let label = dot::attr(attrs, "label").ok_or_else(|| fail("edge without label".into()))?;
        let cc = parse_edge_class(label).ok_or_else(|| fail(format!("edge label {:?} does not end in (C#id)", label)))?;
        *edges.entry((sf, cc, stt)).or_insert(0) += 1;
    }
    for tr in &a.transitions {
        *edges.entry(*tr).or_insert(0) -= 1;
    }
    if let Some((k, v)) = edges.iter().find(|(_, v)| **v != 0) {
        return Err(fail(format!(
            "transition (state {}, class {}, state {}) occurs {} the export than in the automaton",
            k.0,
            k.1,
            k.2,
            if *v > 0 { "more often in" } else { "less often in" }
        )));
    }
    Ok(())
}

fn compare_mode(g: &Graph, a: &AutomatonDump, what: &str) -> Result<(), Failure> {
    compare_graph(g, a, what)?;
    let clusters: Vec<&Graph> = g
        .subgraphs
        .iter()
        .filter(|s| s.id.as_deref().is_some_and(|i| i.starts_with("cluster")))
        .collect();
    if clusters.len() != a.lookaheads.len() || clusters.len() != g.subgraphs.len() {
        return Err(Failure::new(
            "c18.content",
            format!("{}: {} clusters for {} lookaheads", what, clusters.len(), a.lookaheads.len()),
        ));
    }
    let mut used = vec![false; clusters.len()];
    for la in &a.lookaheads {
        let want_t = format!("T{}", la.token_type);
        let pol = if la.is_positive { "Pos" } else { "Neg" };
        let anti = if la.is_positive { "Neg" } else { "Pos" };
        let found = clusters.iter().enumerate().find(|(i, c)| {
            !used[*i]
                && dot::attr(&c.attrs, "label").is_some_and(|l| {
                    // the token type must appear as a whole number
                    l.match_indices(&want_t).any(|(at, _)| {
                        !l[at + want_t.len()..].chars().next().is_some_and(|c| c.is_ascii_digit())
                    }) && l.contains(pol)
                        && !l.contains(anti)
                })
        });
        let Some((i, c)) = found else {
            return Err(Failure::new(
                "c18.content",
                format!("{}: no cluster labelled with {} and {} for the lookahead", what, want_t, pol),
            ));
        };
        used[i] = true;
        compare_graph(c, &la.automaton, &format!("{} / lookahead of T{}", what, la.token_type))?;
        if !c.subgraphs.is_empty() {
            return Err(Failure::new("c18.content", format!("{}: nested cluster", what)));
        }
    }
    Ok(())
}

const ESCAPE_PATTERNS: &[&str] = &[r#"""#, r"\\", r"\}", r"\{", r#"["\}]"#, r"\u{22}", "\\n", "é", r"[\\\]]", r"\u{1F600}"];

impl Check for C18 {
    fn id(&self) -> &'static str {
        "C18"
    }
    fn level(&self) -> &'static str {
        "fault_enumeration"
    }
    fn rule(&self) -> &'static str {
        "case = configuration with 1-4 modes (identifier-like distinct names), lookaheads of both polarities (also nullable ones), ~9% with a token type shared by several patterns of a mode, classes and literals whose text needs escaping in a label (quote, backslash, newline, non-ASCII, braces), a random prefix, a target folder that is fresh or already holds larger files of an earlier export under the same names plus an unrelated file, or (~19%) the export of a near-identical scanner whose rendering has the same length, plus one injected fault out of {none, target folder missing, regular file in place of the folder, directory occupying the output file name of the last / of the first mode, over-long prefix, prefix that is an absolute path into another folder (nothing may be written outside the target)}; oracle = without fault: Ok, the fresh target directory contains exactly the files <prefix>_<mode>.dot, each parses with a strict parser of the DOT subset, and by content: nodes = states (number leading the label), ` T<t>` exactly on accepting non-start states with t their token type, multiset of edges (source state, trailing (C#id), target state) = multiset of transitions of the feature-gated dump, exactly one cluster per lookahead labelled with T<t> and Pos/Neg containing the lookahead automaton under the same rules; with fault: Err and no panic; non-trivial = >= 2 modes or >= 1 lookahead together with a label needing an escape"
    }
    fn cases(&self, thorough: bool) -> usize {
        if thorough {
            600_000
        } else {
            20_000
        }
    }
    fn generate(&self, d: &mut Dec, thorough: bool) -> Case {
        let p = GenParams {
            max_pats: 4,
            max_depth: 3,
            ..GenParams::for_tier(thorough)
        }
        .with_lookaheads(60)
        .with_modes(4);
        let mut modes = gen::gen_modes(d, &p);
        if d.chance(p.large_per_256) {
            let mi = d.below(modes.len());
            modes[mi] = gen::gen_large_mode(d, &p, gen::MODE_NAMES[mi]);
        }
        if d.chance(10) {
            // a class whose source text is long (labels beyond 64 / 256 bytes)
            let wide = gen::wide_alphabet();
            let n = *d.pick(&[30usize, 64, 70, 130, 260]);
            let items = (0..n)
                .map(|i| rx::ClassItem::Lit(wide[(i * 3 + d.below(2)) % wide.len()], rx::LitForm::Verbatim))
                .collect();
            let cls = Rx::Class(rx::Class::Bracket(rx::Bracket {
                negated: d.chance(60),
                set: rx::ClassSet::Items(items),
            }));
            let mi = d.below(modes.len());
            let mut tt = 50;
            while modes[mi].pats.iter().any(|q| q.tt == tt) {
                tt += 1;
            }
            modes[mi].pats.push(PatSpec { rx: cls.clone(), tt, la: None });
            if d.bool() {
                // a second long class with a common prefix (identifier start / continue style)
                if let Rx::Class(rx::Class::Bracket(b)) = &cls {
                    let mut b2 = b.clone();
                    if let rx::ClassSet::Items(v) = &mut b2.set {
                        v.push(rx::ClassItem::Range('0', '9'));
                    }
                    modes[mi].pats.push(PatSpec {
                        rx: Rx::Concat(vec![cls.clone(), Rx::Repeat(Box::new(Rx::Class(rx::Class::Bracket(b2))), 0, None)]),
                        tt: tt + 1000,
                        la: None,
                    });
                }
            }
        }
        if d.chance(150) {
            let mi = d.below(modes.len());
            let src = *d.pick(ESCAPE_PATTERNS);
            let mut tt = 30;
            while modes[mi].pats.iter().any(|q| q.tt == tt) {
                tt += 1;
            }
            modes[mi].pats.push(PatSpec {
                rx: rx::parse_supported(src),
                tt,
                la: if d.chance(60) {
                    Some(LaSpec {
                        positive: d.bool(),
                        rx: rx::parse_supported(*d.pick(ESCAPE_PATTERNS)),
                    })
                } else {
                    None
                },
            });
        }
        if d.chance(24) {
            // a token type shared by several patterns of a mode (with or without lookaheads)
            crate::checks::automaton::share_token_type(d, &mut modes);
        }
        let pchars: Vec<char> = "abcXYZ019_.- ".chars().collect();
        let mut prefix = String::new();
        for _ in 0..1 + d.below(8) {
            prefix.push(*d.pick(&pchars));
        }
        let fault = *d.pick(&["none", "none", "none", "missing_folder", "file_as_folder", "dir_as_output", "dir_as_first_output", "long_prefix", "absolute_prefix"]);
        Case {
            modes,
            extra: json!({"prefix": prefix, "fault": fault, "prefill": d.chance(80), "sibling_first": d.chance(48)}),
            ..Case::default()
        }
    }
    fn check(&self, case: &Case) -> CheckResult {
        if let Err(r) = domain_ok_structural(case) {
            return Ok(discard(r));
        }
        // names identifier-like and distinct (domain rule 6)
        for (i, m) in case.modes.iter().enumerate() {
            if m.name.is_empty()
                || !m.name.chars().all(|c| c.is_ascii_alphanumeric() || c == '_')
                || case.modes[..i].iter().any(|o| o.name == m.name)
            {
                return Ok(discard("discard_mode_name"));
            }
        }
        let prefix = case.extra["prefix"].as_str().unwrap_or("p").to_string();
        if prefix.is_empty() || prefix.contains('/') || prefix.contains('\0') || prefix.len() > 64 {
            return Ok(discard("discard_prefix"));
        }
        let fault = case.extra["fault"].as_str().unwrap_or("none").to_string();
        let prefill = case.extra["prefill"].as_bool().unwrap_or(false);
        let mut st = CaseStats::default();
        let scanner = match build_guarded(case, false)? {
            Ok(s) => s,
            Err(_) => {
                st.count("build_failed");
                st.inconclusive = true;
                return Ok(st);
            }
        };
        let dir = scratch_dir();
        let _ = std::fs::remove_dir_all(&dir);
        let cleanup = |d: &Path| {
            let _ = std::fs::remove_dir_all(d);
        };
        let mut use_prefix = prefix.clone();
        let mut target = dir.join("out");
        let setup: std::io::Result<()> = (|| {
            std::fs::create_dir_all(&dir)?;
            match fault.as_str() {
                "none" => {
                    std::fs::create_dir_all(&target)?;
                    if prefill {
                        // an earlier, larger export under the same names and an unrelated file
                        for m in &case.modes {
                            let stale = format!("digraph {{\n{}}}\n", "  \"9\" -> \"9\" [label=\"x (C#0)\"];\n".repeat(400));
                            std::fs::write(target.join(format!("{}_{}.dot", prefix, m.name)), stale)?;
                        }
                        std::fs::write(target.join("keep.txt"), b"unrelated")?;
                    }
                }
                "missing_folder" => {}
                "file_as_folder" => std::fs::write(&target, b"x")?,
                "dir_as_output" => {
                    std::fs::create_dir_all(&target)?;
                    let last = case.modes.last().unwrap();
                    std::fs::create_dir_all(target.join(format!("{}_{}.dot", prefix, last.name)))?;
                }
                "dir_as_first_output" => {
                    // only the file of the FIRST mode cannot be created (the later ones can)
                    std::fs::create_dir_all(&target)?;
                    let first = case.modes.first().unwrap();
                    std::fs::create_dir_all(target.join(format!("{}_{}.dot", prefix, first.name)))?;
                }
                "absolute_prefix" => {
                    // a prefix that is an absolute path into ANOTHER existing folder: whatever the
                    // export does with it, nothing may be written outside the target folder
                    std::fs::create_dir_all(&target)?;
                    let other = dir.join("other");
                    std::fs::create_dir_all(&other)?;
                    use_prefix = format!("{}/esc", other.display());
                }
                "long_prefix" => {
                    std::fs::create_dir_all(&target)?;
                    use_prefix = "x".repeat(300);
                }
                _ => {}
            }
            Ok(())
        })();
        if let Err(e) = setup {
            cleanup(&dir);
            crate::run::harness_error(&format!("cannot prepare scratch directory {}: {}", dir.display(), e));
        }
        if fault == "missing_folder" {
            target = dir.join("does").join("not").join("exist");
        }
        if fault == "none" && case.extra["sibling_first"].as_bool().unwrap_or(false) {
            // an earlier export of a near-identical scanner into the same folder under the same
            // names (a lookahead polarity flipped, else a token type changed within its number of
            // digits: renderings of equal length and different content)
            let mut sib = case.clone();
            let mut changed = false;
            'outer: for m in sib.modes.iter_mut() {
                for p in m.pats.iter_mut() {
                    if let Some(la) = p.la.as_mut() {
                        la.positive = !la.positive;
                        changed = true;
                        break 'outer;
                    }
                }
            }
            if !changed {
                'outer2: for m in sib.modes.iter_mut() {
                    for i in 0..m.pats.len() {
                        let t = m.pats[i].tt;
                        let cand = if t % 10 == 9 { t - 1 } else { t + 1 };
                        if m.pats.iter().all(|q| q.tt != cand) && m.transitions.iter().all(|x| x.0 != t && x.0 != cand) {
                            m.pats[i].tt = cand;
                            changed = true;
                            break 'outer2;
                        }
                    }
                }
            }
            if changed {
                if let Ok(Ok(s2)) = guard(|| sib.build_uncached()) {
                    let _ = guard(|| s2.generate_compiled_automata_as_dot(&use_prefix, &target));
                    st.count("exports_over_a_sibling_export");
                }
            }
        }
        let r = guard(|| scanner.generate_compiled_automata_as_dot(&use_prefix, &target));
        let result = (|| -> CheckResult {
            let res = match r {
                Err(p) => {
                    return Err(Failure::panic(
                        "c18.panic",
                        format!("generate_compiled_automata_as_dot panicked (fault: {})", fault),
                        p,
                    ))
                }
                Ok(x) => x,
            };
            if fault == "absolute_prefix" {
                st.count("faults_injected");
                let escaped: Vec<String> = std::fs::read_dir(dir.join("other"))
                    .map(|rd| rd.filter_map(|e| e.ok().map(|e| e.file_name().to_string_lossy().to_string())).collect())
                    .unwrap_or_default();
                if !escaped.is_empty() {
                    return Err(Failure::new(
                        "c18.escaped_target",
                        "with a prefix that is an absolute path the export wrote files outside the target folder",
                    )
                    .exp_obs("no file outside the target folder", &escaped));
                }
                return Ok(st.clone());
            }
            if fault != "none" {
                st.count("faults_injected");
                return match res {
                    Err(_) => Ok(st.clone()),
                    Ok(()) => Err(Failure::new(
                        "c18.fault",
                        format!("the export reports success although the target cannot be written ({})", fault),
                    )
                    .exp_obs("Err", "Ok")),
                };
            }
            if let Err(e) = res {
                return Err(Failure::new("c18.export_failed", format!("export into a fresh writable folder failed: {}", e)));
            }
            // exactly the expected files
            let mut found: Vec<String> = std::fs::read_dir(&target)
                .map_err(|e| Failure::new("c18.files", format!("cannot list the target folder: {}", e)))?
                .filter_map(|e| e.ok().map(|e| e.file_name().to_string_lossy().to_string()))
                .collect();
            found.sort();
            let mut expected: Vec<String> = case.modes.iter().map(|m| format!("{}_{}.dot", prefix, m.name)).collect();
            if prefill {
                expected.push("keep.txt".to_string());
                st.count("exports_over_existing_files");
            }
            expected.sort();
            if found != expected {
                return Err(Failure::new("c18.files", "the target folder does not contain exactly one file per mode").exp_obs(&expected, &found));
            }
            let dump = scanner.verif_dump();
            for (mi, m) in case.modes.iter().enumerate() {
                let path = target.join(format!("{}_{}.dot", prefix, m.name));
                let text = std::fs::read_to_string(&path)
                    .map_err(|e| Failure::new("c18.files", format!("{} is not readable UTF-8: {}", path.display(), e)))?;
                let g = dot::parse(&text).map_err(|e| {
                    Failure::new("c18.wellformed", format!("mode {}: the file is not well-formed DOT: {}", m.name, e)).exp_obs("", &text)
                })?;
                compare_mode(&g, &dump[mi].automaton, &format!("mode {}", m.name))?;
                st.count("files_compared");
                st.add("edges_compared", dump[mi].automaton.transitions.len() as u64);
                st.add("clusters_compared", dump[mi].automaton.lookaheads.len() as u64);
                if text.contains("\\\"") || text.contains("\\\\") || text.contains("\\n") || !text.is_ascii() {
                    st.count("files_with_escapes");
                }
            }
            let has_la = case.modes.iter().any(|m| m.pats.iter().any(|p| p.la.is_some()));
            st.flag(
                "token_type_shared_within_a_mode",
                case.modes.iter().any(|m| {
                    m.pats.iter().enumerate().any(|(i, p)| m.pats[..i].iter().any(|q| q.tt == p.tt))
                }),
            );
            let escapes = st.counters.iter().any(|(k, _)| *k == "files_with_escapes");
            st.nontrivial = (case.modes.len() >= 2 || has_la) && escapes;
            Ok(st.clone())
        })();
        cleanup(&dir);
        let _ = Rx::Empty;
        result
    }
}
