//! Helpers shared by the checks.

use crate::case::*;
use crate::model::*;
use crate::run::{guard, CaseStats, Failure};
use scnr::ScannerModeSwitcher;

pub fn discard(reason: &'static str) -> CaseStats {
    let mut st = CaseStats::default();
    st.count(reason);
    st.count("discarded");
    st
}

/// Domain rules common to all scanning checks (DESIGN section 4).
pub fn domain_ok(case: &Case) -> Result<(), &'static str> {
    domain_ok_with(case, false)
}

/// Domain of the checks on the compiled structure (C02, C03, C18), whose oracles are the pattern
/// languages per token type and the dumped automata: nullable lookahead patterns and token types
/// shared by several patterns of a mode are legal configurations there (rules 2 and 4 of DESIGN
/// section 4 concern the scanning semantics only).
pub fn domain_ok_structural(case: &Case) -> Result<(), &'static str> {
    domain_ok_with(case, true)
}

fn domain_ok_with(case: &Case, structural: bool) -> Result<(), &'static str> {
    let nullable_lookaheads = structural;
    if case.modes.is_empty() {
        return Err("discard_no_mode");
    }
    if case.has_raw() {
        return Err("discard_raw");
    }
    for m in &case.modes {
        if m.pats.is_empty() {
            return Err("discard_empty_mode");
        }
        // token types distinct within a mode (rule 2)
        for (i, p) in m.pats.iter().enumerate() {
            if !structural && m.pats[..i].iter().any(|q| q.tt == p.tt) {
                return Err("discard_duplicate_token_type");
            }
            if let Some(la) = &p.la {
                if !nullable_lookaheads && crate::rx::nullable(&la.rx) {
                    return Err("discard_nullable_lookahead");
                }
            }
        }
        // transitions sorted, distinct, to existing modes (rule 1)
        if !m.transitions.windows(2).all(|w| w[0].0 < w[1].0) {
            return Err("discard_unsorted_transitions");
        }
        if m.transitions.iter().any(|(_, t)| *t >= case.modes.len()) {
            return Err("discard_bad_transition_target");
        }
    }
    if case.add_patterns {
        if case.modes.len() != 1 {
            return Err("discard_add_patterns_modes");
        }
        for (i, p) in case.modes[0].pats.iter().enumerate() {
            if p.tt != i || p.la.is_some() {
                return Err("discard_add_patterns_shape");
            }
        }
    }
    Ok(())
}

/// Builds the scanner of a case inside a panic guard.
/// Ok(None) = build returned an error (not this check's business unless it says so).
pub fn build_guarded(case: &Case, cached: bool) -> Result<Result<scnr::Scanner, String>, Failure> {
    // a small share of the cases that do not insist on a path goes through the cache as well (the
    // two paths use different conversions inside scnr)
    let shape: usize = case
        .modes
        .iter()
        .flat_map(|m| m.pats.iter())
        .map(|p| p.tt % 97 + crate::rx::size(&p.rx))
        .sum();
    let cached = cached || shape % 32 == 7;
    let r = guard(|| {
        if cached || case.add_patterns {
            case.build()
        } else {
            case.build_uncached()
        }
    });
    match r {
        Err(p) => Err(Failure::panic("build_panic", "building the scanner panicked", p)),
        Ok(Err(e)) => Ok(Err(e.to_string())),
        Ok(Ok(s)) => Ok(Ok(s)),
    }
}

/// Collects the tokens of an iterator, calling next() at most `#chars + 4` times.
pub fn collect_bounded(
    it: &mut scnr::FindMatches<'_>,
    nchars: usize,
) -> Result<(Vec<Tok>, bool), String> {
    guard(|| {
        let mut out = Vec::new();
        let mut ended = false;
        for _ in 0..nchars + 4 {
            match it.next() {
                Some(m) => out.push(Tok::of(&m)),
                None => {
                    ended = true;
                    break;
                }
            }
        }
        (out, ended)
    })
}

/// Reference tokenization for lookahead-free single-mode scanning along the model (C01): exact
/// token list.
pub fn reference_tokens(
    model: &Model,
    mut mode: usize,
    text: &Text,
    start_char: usize,
    follow_transitions: bool,
) -> Vec<Tok> {
    let n = text.len();
    let mut pos = start_char;
    let mut out = Vec::new();
    while pos < n {
        let (cands, _) = model.candidates(mode, &text.chars, pos);
        let w = Model::winners(&cands);
        if let Some(c) = w.first() {
            out.push(Tok {
                tt: c.tt,
                start: text.offs[pos],
                end: text.offs[c.end],
            });
            pos = c.end;
            if follow_transitions {
                if let Some(t) = model.transition(mode, c.tt) {
                    mode = t;
                }
            }
        } else {
            pos += 1;
        }
    }
    out
}

pub fn mode_of(it: &scnr::FindMatches<'_>) -> usize {
    it.current_mode()
}
