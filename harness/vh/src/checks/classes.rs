//! C08: character classes are the set algebra of their parts, for every Unicode scalar value.

use super::common::*;
use crate::case::*;
use crate::dec::Dec;
use crate::gen::{self, GenParams};
use crate::run::{guard, Aggregate, CaseStats, Check, CheckResult, Failure};
use crate::rx::*;
use crate::sets::{self, BitSet, NSCALARS};
use serde_json::{json, Value};

pub struct C08;

fn single(rx: Rx) -> Case {
    Case {
        modes: vec![ModeSpec {
            name: "M".into(),
            pats: vec![PatSpec { rx, tt: 0, la: None }],
            transitions: vec![],
        }],
        ..Case::default()
    }
}

fn multi(rxs: Vec<Rx>) -> Case {
    Case {
        modes: vec![ModeSpec {
            name: "M".into(),
            pats: rxs
                .into_iter()
                .enumerate()
                .map(|(i, rx)| PatSpec { rx, tt: i, la: None })
                .collect(),
            transitions: vec![],
        }],
        ..Case::default()
    }
}

/// A near-identical sibling of a class: polarity of the class or of a named item toggled,
/// literal escape form changed; classes that a registry keyed too coarsely would confuse.
fn sibling(d: &mut Dec, cl: &Class) -> Class {
    fn flip_first_named(s: &mut ClassSet) -> bool {
        match s {
            ClassSet::Items(v) => {
                for it in v.iter_mut() {
                    match it {
                        ClassItem::Named(_, neg) => {
                            *neg = !*neg;
                            return true;
                        }
                        ClassItem::Bracket(b) => {
                            if flip_first_named(&mut b.set) {
                                return true;
                            }
                        }
                        _ => {}
                    }
                }
                false
            }
            ClassSet::BinOp(_, l, r) => flip_first_named(l) || flip_first_named(r),
        }
    }
    fn change_first_form(s: &mut ClassSet) -> bool {
        match s {
            ClassSet::Items(v) => {
                for it in v.iter_mut() {
                    match it {
                        ClassItem::Lit(_, f) => {
                            *f = if *f == LitForm::UBrace { LitForm::Verbatim } else { LitForm::UBrace };
                            return true;
                        }
                        ClassItem::Bracket(b) => {
                            if change_first_form(&mut b.set) {
                                return true;
                            }
                        }
                        _ => {}
                    }
                }
                false
            }
            ClassSet::BinOp(_, l, r) => change_first_form(l) || change_first_form(r),
        }
    }
    /// The LAST literal or range end of the class moved to the next code point of the same UTF-8
    /// length (the printed class keeps its length and everything but its tail).
    fn change_tail(s: &mut ClassSet) -> bool {
        fn next_same_len(c: char) -> Option<char> {
            let n = char::from_u32(c as u32 + 1)?;
            (n.len_utf8() == c.len_utf8() && !"[]\\^-&~".contains(n) && !"[]\\^-&~".contains(c) && n.is_alphanumeric() == c.is_alphanumeric()).then_some(n)
        }
        match s {
            ClassSet::Items(v) => {
                for it in v.iter_mut().rev() {
                    match it {
                        ClassItem::Lit(c, _) => {
                            if let Some(n) = next_same_len(*c) {
                                *c = n;
                                return true;
                            }
                            return false;
                        }
                        ClassItem::Range(_, hi) => {
                            if let Some(n) = next_same_len(*hi) {
                                *hi = n;
                                return true;
                            }
                            return false;
                        }
                        ClassItem::Bracket(b) => return change_tail(&mut b.set),
                        _ => return false,
                    }
                }
                false
            }
            ClassSet::BinOp(_, _, r) => change_tail(r),
        }
    }
    match cl {
        Class::Named(n, neg) => match d.below(3) {
            0 => Class::Named(n.clone(), !neg),
            1 => Class::Bracket(Bracket {
                negated: !neg,
                set: ClassSet::Items(vec![ClassItem::Named(n.clone(), false)]),
            }),
            _ => Class::Bracket(Bracket {
                negated: false,
                set: ClassSet::Items(vec![ClassItem::Named(n.clone(), !neg)]),
            }),
        },
        Class::Bracket(b) => {
            let mut nb = b.clone();
            match d.below(4) {
                0 => nb.negated = !nb.negated,
                3 => {
                    if !change_tail(&mut nb.set) {
                        nb.negated = !nb.negated;
                    }
                }
                1 => {
                    if !flip_first_named(&mut nb.set) {
                        nb.negated = !nb.negated;
                    }
                }
                _ => {
                    if !change_first_form(&mut nb.set) {
                        nb.negated = !nb.negated;
                    }
                }
            }
            Class::Bracket(nb)
        }
    }
}

fn all_named() -> Vec<Named> {
    let mut v = vec![
        Named::Perl(PerlKind::Digit),
        Named::Perl(PerlKind::Space),
        Named::Perl(PerlKind::Word),
    ];
    for i in 0..ASCII_KINDS.len() {
        v.push(Named::Ascii(i));
    }
    for c in UNICODE_ONE_LETTER {
        v.push(Named::UnicodeLetter(c));
    }
    for n in UNICODE_NAMED {
        v.push(Named::UnicodeName(n.to_string()));
    }
    v
}

fn has_set_op(s: &ClassSet) -> bool {
    match s {
        ClassSet::BinOp(..) => true,
        ClassSet::Items(v) => v.iter().any(|i| match i {
            ClassItem::Bracket(b) => has_set_op(&b.set),
            _ => false,
        }),
    }
}

fn has_inner_negation(s: &ClassSet) -> bool {
    match s {
        ClassSet::BinOp(_, l, r) => has_inner_negation(l) || has_inner_negation(r),
        ClassSet::Items(v) => v.iter().any(|i| match i {
            ClassItem::Bracket(b) => b.negated || has_inner_negation(&b.set),
            ClassItem::Named(_, neg) => *neg,
            _ => false,
        }),
    }
}

fn depth_of(s: &ClassSet) -> usize {
    match s {
        ClassSet::BinOp(_, l, r) => depth_of(l).max(depth_of(r)),
        ClassSet::Items(v) => v
            .iter()
            .map(|i| match i {
                ClassItem::Bracket(b) => 1 + depth_of(&b.set),
                _ => 0,
            })
            .max()
            .unwrap_or(0),
    }
}

fn ascii_truth(k: PerlKind) -> BitSet {
    let mut s = BitSet::empty();
    match k {
        PerlKind::Digit => s.set_range('0', '9'),
        PerlKind::Space => {
            for c in ['\t', '\n', '\x0B', '\x0C', '\r', ' '] {
                s.set(c);
            }
        }
        PerlKind::Word => {
            s.set_range('0', '9');
            s.set_range('A', 'Z');
            s.set_range('a', 'z');
            s.set('_');
        }
    }
    s
}

fn ascii_mask() -> BitSet {
    let mut s = BitSet::empty();
    s.set_range('\0', '\x7F');
    s
}

impl Check for C08 {
    fn id(&self) -> &'static str {
        "C08"
    }
    fn rule(&self) -> &'static str {
        "case = one to three single-character patterns in one scanner (the further ones mostly near-identical siblings of the first: polarity of the class or of a named item toggled, literal escape form changed; pattern j is expected to get what the earlier patterns leave over), the first a generated bracketed class of nesting depth <= 3 (4 thorough) built from literals in every escape form, ranges (single point, across the surrogate gap, up to U+10FFFF), Perl / ASCII / Unicode named items with both negation syntaxes, nested brackets, negation at every level, unions (~4% with 8-24 overlapping / nested literals and ranges) and bracket-wrapped operands of && -- ~~ (also chained, ~8% with a missing right operand = empty set); plus every class of the repository corpora; plus fixed cases: every literal form of every alphabet character, `.`, every named item alone and negated, and both polarities of every named item together in one scanner in both orders; oracle = for EVERY one of the 1 112 064 scalar values: the character is a token of the scanner built from that single pattern (public API, input = the string of all scalar values, every token exactly one character) iff the boolean evaluation of the expression says so, named items looked up in their base sets measured when used alone; \\d \\s \\w restricted to ASCII must be [0-9], [\\t\\n\\x0B\\x0C\\r ], [0-9A-Za-z_]; non-trivial = expression with a set operator or a negation below the top level; exhaustive in the character dimension"
    }
    fn assumptions(&self) -> Vec<String> {
        vec![
            "base sets of named items are what the implementation matches for the item alone (wording of C08); only their ASCII part for \\d \\s \\w and the complement laws are asserted independently".into(),
            "a bare `.` inside brackets is never generated and corpus classes containing one are skipped (README uses [.\\r\\n] with dot meaning; the statement does not settle it)".into(),
        ]
    }
    fn cases(&self, thorough: bool) -> usize {
        if thorough {
            50_000
        } else {
            2_500
        }
    }
    fn fixed_cases(&self, _thorough: bool) -> Vec<Case> {
        let mut v = Vec::new();
        // literal forms
        let forms = [
            LitForm::Verbatim,
            LitForm::Backslash,
            LitForm::HexFixed,
            LitForm::HexBrace,
            LitForm::UShort,
            LitForm::UBrace,
            LitForm::ULong,
            LitForm::Special,
        ];
        for (i, c) in gen::ALPHABET.iter().chain(gen::FOREIGN.iter()).enumerate() {
            // every form on a rotating subset to bound the cost, every character at least twice
            for (j, f) in forms.iter().enumerate() {
                if (i + j) % 3 == 0 || j == 0 {
                    v.push(single(Rx::Lit(*c, f.clone())));
                    v.push(single(Rx::Class(Class::Bracket(Bracket {
                        negated: false,
                        set: ClassSet::Items(vec![ClassItem::Lit(*c, f.clone())]),
                    }))));
                }
            }
        }
        v.push(single(Rx::Dot));
        for n in all_named() {
            v.push(single(Rx::Class(Class::Named(n.clone(), false))));
            v.push(single(Rx::Class(Class::Named(n.clone(), true))));
            // negated through the bracket
            v.push(single(Rx::Class(Class::Bracket(Bracket {
                negated: true,
                set: ClassSet::Items(vec![ClassItem::Named(n.clone(), false)]),
            }))));
            v.push(single(Rx::Class(Class::Bracket(Bracket {
                negated: false,
                set: ClassSet::Items(vec![ClassItem::Named(n, true)]),
            }))));
        }
        // both polarities of the same named item in ONE scanner, in both orders (a registry that
        // identifies them would give both the same predicate)
        for n in all_named() {
            let alone = |neg: bool| Rx::Class(Class::Named(n.clone(), neg));
            v.push(multi(vec![alone(false), alone(true)]));
            v.push(multi(vec![alone(true), alone(false)]));
        }
        // corpus classes
        let mut seen = std::collections::HashSet::new();
        for c in super::automaton::corpus_cases() {
            for m in &c.modes {
                for p in &m.pats {
                    let mut cls = Vec::new();
                    collect_classes(&p.rx, &mut cls);
                    if let Some(la) = &p.la {
                        collect_classes(&la.rx, &mut cls);
                    }
                    for cl in cls {
                        if seen.insert(cl.clone()) {
                            let mut case = single(Rx::Class(cl.clone()));
                            case.extra = json!({"corpus_class": true});
                            v.push(case);
                        }
                    }
                }
            }
        }
        v
    }
    fn generate(&self, d: &mut Dec, thorough: bool) -> Case {
        let p = GenParams {
            class_depth: if thorough { 4 } else { 3 },
            ..GenParams::for_tier(thorough)
        };
        if d.chance(26) {
            // top-level literals that a lossy registry key would confuse: same low byte, same low
            // 16 bits, neighbours, the same character in another escape form
            let c0 = gen::gen_any_char(d);
            let mut rxs = vec![Rx::Lit(c0, LitForm::UBrace)];
            for _ in 0..1 + d.below(2) {
                let delta = *d.pick(&[256i64, 512, 65_536, 1, -1, -256, 0x100 * 77, 0]);
                let c1 = char::from_u32((c0 as i64 + delta).clamp(0, 0x10FFFF) as u32).unwrap_or(c0);
                let form = if delta == 0 { LitForm::HexBrace } else { LitForm::UBrace };
                rxs.push(Rx::Lit(c1, form));
            }
            return multi(rxs);
        }
        if d.chance(14) {
            // regex metacharacters and other ASCII punctuation as top-level literals written in an
            // escape form (an implementation that re-interprets the decoded character would treat
            // `\x2E` as a dot, `\x5B` as an opening bracket, ...), alone and inside a bracket
            let metas: Vec<char> = ".*+?()[]{}|^$\\-/#&~\"' ".chars().collect();
            let c = *d.pick(&metas);
            let form = d.pick(&[LitForm::HexFixed, LitForm::HexBrace, LitForm::UShort, LitForm::UBrace, LitForm::ULong]).clone();
            let mut rxs = vec![Rx::Lit(c, form.clone())];
            if d.bool() {
                let c2 = *d.pick(&metas);
                rxs.push(Rx::Class(Class::Bracket(Bracket {
                    negated: d.chance(64),
                    set: ClassSet::Items(vec![ClassItem::Lit(c2, form), ClassItem::Lit('a', LitForm::Verbatim)]),
                })));
            }
            return multi(rxs);
        }
        if d.chance(8) {
            // a bracket with many items (more than 16 / 64 / 128)
            let n = *d.pick(&[17usize, 33, 64, 65, 100, 129]);
            let wide = gen::wide_alphabet();
            let mut items = Vec::new();
            for i in 0..n {
                let ch = wide[(i * 7 + d.below(3)) % wide.len()];
                items.push(match d.below(5) {
                    0 => ClassItem::Range(ch, char::from_u32(ch as u32 + d.below(3) as u32).unwrap_or(ch)),
                    1 => {
                        let nm = gen::gen_named(d, &p, true);
                        ClassItem::Named(nm, d.chance(64))
                    }
                    _ => ClassItem::Lit(ch, LitForm::Verbatim),
                });
            }
            let big = Class::Bracket(Bracket {
                negated: d.chance(64),
                set: ClassSet::Items(items),
            });
            let mut rxs = vec![Rx::Class(big.clone())];
            if d.chance(128) {
                // a second class of the same printed length that differs only in its tail
                rxs.push(Rx::Class(sibling(d, &big)));
            }
            return multi(rxs);
        }
        let first = if d.chance(40) {
            gen::gen_class(d, &p)
        } else {
            Class::Bracket(gen::gen_bracket(d, &p, p.class_depth))
        };
        let mut rxs = vec![Rx::Class(first.clone())];
        let extra = d.weighted(&[5, 4, 2]);
        for _ in 0..extra {
            let c2 = if d.chance(170) {
                sibling(d, &first)
            } else {
                gen::gen_class(d, &p)
            };
            rxs.push(Rx::Class(c2));
        }
        multi(rxs)
    }
    fn extra_coverage(&self, _agg: &Aggregate) -> Value {
        json!({"exhaustive": true, "chars_per_case": NSCALARS})
    }
    fn check(&self, case: &Case) -> CheckResult {
        if case.modes.len() != 1
            || case.modes[0].pats.is_empty()
            || case.modes[0].pats.len() > 4
            || case.modes[0].pats.iter().enumerate().any(|(i, p)| p.la.is_some() || p.tt != i)
        {
            return Ok(discard("discard_shape"));
        }
        let mut refs: Vec<BitSet> = Vec::new();
        for p in &case.modes[0].pats {
            refs.push(match &p.rx {
                Rx::Lit(c, _) => {
                    let mut s = BitSet::empty();
                    s.set(*c);
                    s
                }
                Rx::Dot => {
                    let mut s = BitSet::full();
                    let mut nl = BitSet::empty();
                    nl.set('\n');
                    nl.set('\r');
                    s.andnot_with(&nl);
                    s
                }
                Rx::Class(c) => sets::class_set(c),
                _ => return Ok(discard("discard_shape")),
            });
        }
        // with several patterns the first listed one wins a tie: pattern j gets what the earlier
        // ones leave over
        let mut expected: Vec<BitSet> = Vec::new();
        let mut taken = BitSet::empty();
        for r in &refs {
            let mut e = r.clone();
            e.andnot_with(&taken);
            taken.or_with(r);
            expected.push(e);
        }
        let mut st = CaseStats::default();
        let scanner = match build_guarded(case, false)? {
            Ok(s) => s,
            Err(_) => {
                // every generated class is made of supported constructs; C15 judges build errors
                st.count("build_failed");
                st.inconclusive = true;
                return Ok(st);
            }
        };
        let k = refs.len();
        let measured = match guard(|| sets::measure_scanner_multi(&scanner, k)) {
            Err(p) => return Err(Failure::panic("c08.panic", "scanning all scalar values panicked", p)),
            Ok(Err(e)) => return Err(Failure::new("c08.token_shape", e)),
            Ok(Ok(m)) => m,
        };
        for j in 0..k {
            if let Some(c) = measured[j].first_difference(&expected[j]) {
                let n = measured[j].difference_count(&expected[j]);
                return Err(Failure::new(
                    "c08.membership",
                    format!(
                        "{:?} (U+{:04X}) is {} as pattern {} = {:?} by the scanner built from {:?}, but the set algebra of the parts says the opposite ({} characters differ)",
                        c,
                        c as u32,
                        if measured[j].get(c) { "matched" } else { "not matched" },
                        j,
                        print(&case.modes[0].pats[j].rx),
                        case.modes[0].pats.iter().map(|p| print(&p.rx)).collect::<Vec<_>>(),
                        n
                    ),
                )
                .exp_obs(expected[j].get(c), measured[j].get(c)));
            }
        }
        st.flag("several_classes_in_one_scanner", k > 1);
        let rx = &case.modes[0].pats[0].rx;
        let measured = &measured[0];
        // ASCII ground truth of \d \s \w and their negations
        if let Rx::Class(Class::Named(Named::Perl(kind), neg)) = rx {
            let mut m = measured.clone();
            m.and_with(&ascii_mask());
            let mut truth = ascii_truth(*kind);
            if *neg {
                let mut t = ascii_mask();
                t.andnot_with(&truth);
                truth = t;
            }
            if let Some(c) = m.first_difference(&truth) {
                return Err(Failure::new(
                    "c08.ascii_truth",
                    format!("{:?}: ASCII character {:?} is on the wrong side", print(rx), c),
                )
                .exp_obs(truth.get(c), m.get(c)));
            }
            st.count("ascii_ground_truth_checks");
        }
        for p in &case.modes[0].pats {
            match &p.rx {
                Rx::Class(Class::Bracket(b)) => {
                    let op = has_set_op(&b.set);
                    let neg = has_inner_negation(&b.set);
                    st.flag("with_set_operator", op);
                    st.flag("with_inner_negation", neg);
                    st.flag("top_negated", b.negated);
                    st.flag("depth_ge_2", depth_of(&b.set) >= 2);
                    if op || neg {
                        st.nontrivial = true;
                    }
                }
                Rx::Class(Class::Named(_, neg)) => {
                    st.flag("named_alone", true);
                    st.flag("named_alone_negated", *neg);
                }
                Rx::Lit(..) => st.count("literal_forms"),
                _ => {}
            }
        }
        st.flag("corpus_class", case.extra.get("corpus_class").is_some());
        st.add("members", measured.count() as u64);
        Ok(st)
    }
}
