//! C09 (line/column), C10 (resuming from any offset), C11 (peek_n is a faithful, pure preview).

use super::common::*;
use super::modes::gen_mode_graph_case;
use crate::case::*;
use crate::dec::Dec;
use crate::model::*;
use crate::run::{guard, CaseStats, Check, CheckResult, Failure};
use scnr::{MatchExtIterator, PeekResult, PositionProvider, ScannerModeSwitcher};

/// Verifies one observed `next()` result against the reference: the token must start at the first
/// position >= pos with a non-empty candidate set and be an acceptable winner there; None is only
/// right when no position up to the end has a candidate. Returns the new character position.
pub fn verify_next(
    model: &Model,
    mode: usize,
    text: &Text,
    pos: usize,
    observed: Option<Tok>,
    kind: &str,
) -> Result<usize, Failure> {
    let n = text.len();
    let mut p = pos;
    let mut found = None;
    while p < n {
        let (cands, _) = model.candidates(mode, &text.chars, p);
        if !cands.is_empty() {
            found = Some(cands);
            break;
        }
        p += 1;
    }
    match (found, observed) {
        (None, None) => Ok(n),
        (None, Some(t)) => Err(Failure::new(
            kind,
            format!(
                "a token was returned although nothing matches from byte {} on in mode {}",
                text.offs[pos.min(n)],
                mode
            ),
        )
        .exp_obs("None", t)),
        (Some(c), None) => Err(Failure::new(
            kind,
            format!(
                "None returned although a token starts at byte {} in mode {}",
                text.offs[p], mode
            ),
        )
        .exp_obs(Model::winners(&c), "None")),
        (Some(c), Some(t)) => {
            let w = Model::winners(&c);
            if t.start == text.offs[p]
                && w.iter().any(|x| x.tt == t.tt && text.offs[x.end] == t.end)
            {
                Ok(text.char_index(t.end).unwrap())
            } else {
                Err(Failure::new(
                    kind,
                    format!(
                        "wrong token for a scan from byte {} in mode {}",
                        text.offs[pos.min(n)],
                        mode
                    ),
                )
                .exp_obs(
                    w.iter()
                        .map(|x| Tok {
                            tt: x.tt,
                            start: text.offs[p],
                            end: text.offs[x.end],
                        })
                        .collect::<Vec<_>>(),
                    t,
                ))
            }
        }
    }
}

/// Like verify_next but judging only by membership in the candidate set (pattern matches, lookahead
/// condition holds) at the first position that has candidates - immune to defects in the *choice*
/// among candidates (C01/C05), sensitive to skipped, shifted or invented tokens.
pub fn verify_next_candidate(
    model: &Model,
    mode: usize,
    text: &Text,
    pos: usize,
    observed: Option<Tok>,
    kind: &str,
) -> Result<usize, Failure> {
    let n = text.len();
    let mut p = pos;
    let mut found = None;
    while p < n {
        let (cands, _) = model.candidates(mode, &text.chars, p);
        if !cands.is_empty() {
            found = Some(cands);
            break;
        }
        p += 1;
    }
    match (found, observed) {
        (None, None) => Ok(n),
        (None, Some(t)) => Err(Failure::new(
            kind,
            format!("a token was returned although no pattern of mode {} matches anywhere from byte {} on", mode, text.offs[pos.min(n)]),
        )
        .exp_obs("None", t)),
        (Some(c), None) => Err(Failure::new(
            kind,
            format!("None returned although a pattern of mode {} matches at byte {}", mode, text.offs[p]),
        )
        .exp_obs(&c, "None")),
        (Some(c), Some(t)) => {
            if t.start == text.offs[p] && c.iter().any(|x| x.tt == t.tt && text.offs[x.end] == t.end) {
                Ok(text.char_index(t.end).unwrap())
            } else {
                Err(Failure::new(
                    kind,
                    format!(
                        "the token returned for a scan from byte {} in mode {} is not a match starting at byte {} (the first position where a pattern matches)",
                        text.offs[pos.min(n)], mode, text.offs[p]
                    ),
                )
                .exp_obs(&c, t))
            }
        }
    }
}

fn peek_parts(pr: PeekResult) -> (Vec<Tok>, &'static str, Option<usize>) {
    match pr {
        PeekResult::Matches(v) => (v.iter().map(Tok::of).collect(), "Matches", None),
        PeekResult::MatchesReachedEnd(v) => {
            (v.iter().map(Tok::of).collect(), "MatchesReachedEnd", None)
        }
        PeekResult::MatchesReachedModeSwitch((v, m)) => (
            v.iter().map(Tok::of).collect(),
            "MatchesReachedModeSwitch",
            Some(m),
        ),
        PeekResult::NotFound => (vec![], "NotFound", None),
    }
}

fn shift(t: Tok, by: usize) -> Tok {
    Tok {
        tt: t.tt,
        start: t.start + by,
        end: t.end + by,
    }
}

fn boundary_offsets(text: &Text) -> Vec<usize> {
    text.offs.clone()
}

// =================================================================================================
// C10

pub struct C10;

fn gen_offset(d: &mut Dec, text: &Text) -> usize {
    let len = text.byte_len();
    match d.weighted(&[32, 8, 8, 4, 1]) {
        0 => text.offs[d.below(text.offs.len())],
        1 => 0,
        2 => len,
        3 => len + 1 + d.below(5),
        // far beyond the end (clamping must not overflow anything)
        _ => *d.pick(&[usize::MAX, usize::MAX - 1, usize::MAX / 2, u32::MAX as usize, (u32::MAX as usize) + 1, 65_536]),
    }
}

impl Check for C10 {
    fn id(&self) -> &'static str {
        "C10"
    }
    fn rule(&self) -> &'static str {
        "case = mode graph (1-4 modes, lookaheads) x input x history of next | peek_n | set_mode | set_offset(o) | fresh iterator with_offset(o) (o = any character boundary, 0, len, beyond len) | peek_n(n) + advance_to(end of k-th peeked match) [+ set_mode(target) if the skipped prefix contains the mode-switching token]; oracles = (a) metamorphic: after a reset to o in mode m all further observations equal those of a twin iterator over the suffix string input[o..] in mode m driven by the same calls, spans shifted by o; (b) every next() must return a match of a pattern of the current mode starting at the first position from the model position where any pattern matches (membership in the reference candidate set, not the choice among candidates - so that a behaviour shared by resets and fresh scans, e.g. special treatment of the first character, cannot hide); (c) after advance_to the twin instead calls next() k+1 times and both must continue identically; non-trivial = a reset to an offset > 0 after >= 1 consumed token, or an advance_to on an iterator whose offset base is non-zero"
    }
    fn cases(&self, thorough: bool) -> usize {
        if thorough {
            10_000_000
        } else {
            150_000
        }
    }
    fn generate(&self, d: &mut Dec, thorough: bool) -> Case {
        let mut case = gen_mode_graph_case(d, thorough, 40);
        let text = Text::new(case.input());
        let nm = case.modes.len();
        let nops = 3 + d.below(if thorough { 30 } else { 18 });
        for _ in 0..nops {
            case.ops.push(match d.weighted(&[12, 3, 2, 5, 2, 4]) {
                0 => Op::Next,
                1 => Op::PeekN { n: crate::gen::gen_peek_n(d, 5) },
                2 => Op::SetMode { m: d.below(nm) },
                3 => Op::SetOffset {
                    o: gen_offset(d, &text),
                },
                4 => {
                    if d.bool() {
                        Op::WithOffset {
                            o: gen_offset(d, &text),
                        }
                    } else {
                        Op::RebaseWithOffset {
                            o: gen_offset(d, &text),
                        }
                    }
                }
                _ => {
                    let n = 1 + d.below(4);
                    Op::PeekAdvance { n, k: d.below(n) }
                }
            });
        }
        case
    }
    fn check(&self, case: &Case) -> CheckResult {
        if let Err(r) = domain_ok(case) {
            return Ok(discard(r));
        }
        if case.inputs.len() != 1 {
            return Ok(discard("discard_shape"));
        }
        let input = case.input();
        let text = Text::new(input);
        let nm = case.modes.len();
        for op in &case.ops {
            match op {
                Op::Next | Op::PeekN { .. } => {}
                Op::SetMode { m } if *m < nm => {}
                Op::SetOffset { o } | Op::WithOffset { o } | Op::RebaseWithOffset { o }
                    if *o > input.len() || input.is_char_boundary(*o) => {}
                Op::PeekAdvance { n, k } if k < n => {}
                _ => return Ok(discard("discard_op")),
            }
        }
        let mut st = CaseStats::default();
        let scanner = match build_guarded(case, false)? {
            Ok(s) => s,
            Err(_) => {
                st.count("build_failed");
                st.inconclusive = true;
                return Ok(st);
            }
        };
        let model = case.model();
        let len = input.len();

        let r = guard(|| -> Result<CaseStats, Failure> {
            let mut st = CaseStats::default();
            let mut it = scanner.find_iter(input);
            // twin over the suffix; base = offset of the suffix in the input
            let mut base = 0usize;
            let mut twin = scanner.find_iter(input);
            let mut mode = 0usize;
            let mut consumed = 0usize;
            let mut pos = 0usize; // model position (character index)
            for (step, op) in case.ops.iter().enumerate() {
                match op {
                    Op::Next => {
                        let a = it.next().map(|m| Tok::of(&m));
                        let b = twin.next().map(|m| shift(Tok::of(&m), base));
                        if a != b {
                            return Err(Failure::new(
                                "c10.suffix",
                                format!("step {}: next() differs from the scan of the suffix input[{}..]", step, base),
                            )
                            .exp_obs(b, a));
                        }
                        pos = verify_next_candidate(&model, mode, &text, pos, a, "c10.position")?;
                        if let Some(t) = a {
                            consumed += 1;
                            if let Some(m2) = model.transition(mode, t.tt) {
                                mode = m2;
                            }
                        }
                    }
                    Op::PeekN { n } => {
                        let (a, va, ma) = peek_parts(it.peek_n(*n));
                        let (b, vb, mb) = peek_parts(twin.peek_n(*n));
                        let b: Vec<Tok> = b.into_iter().map(|t| shift(t, base)).collect();
                        if a != b || va != vb || ma != mb {
                            return Err(Failure::new(
                                "c10.suffix",
                                format!("step {}: peek_n({}) differs from the scan of the suffix input[{}..]", step, n, base),
                            )
                            .exp_obs((b, vb, mb), (a, va, ma)));
                        }
                    }
                    Op::SetMode { m } => {
                        it.set_mode(*m);
                        twin.set_mode(*m);
                        mode = *m;
                    }
                    Op::SetOffset { o } | Op::WithOffset { o } | Op::RebaseWithOffset { o } => {
                        let fresh = matches!(op, Op::WithOffset { .. });
                        if fresh {
                            it = scanner.find_iter(input).with_offset(*o);
                            mode = 0;
                            st.count("with_offset");
                        } else if matches!(op, Op::RebaseWithOffset { .. }) {
                            // the consuming with_offset on the iterator in use keeps the mode
                            it = it.with_offset(*o);
                            st.count("with_offset_on_used_iterator");
                        } else {
                            it.set_offset(*o);
                            st.count("set_offset");
                        }
                        let oo = (*o).min(len);
                        base = oo;
                        pos = text.char_index(oo).unwrap();
                        twin = scanner.find_iter(&input[oo..]);
                        twin.set_mode(mode);
                        st.flag("reset_beyond_end", *o > len);
                        st.flag("reset_backwards", consumed > 0 && oo > 0);
                        if consumed > 0 && oo > 0 {
                            st.nontrivial = true;
                        }
                        let got_mode = it.current_mode();
                        if got_mode != mode {
                            return Err(Failure::new("c10.mode", "reset changed the current mode").exp_obs(mode, got_mode));
                        }
                    }
                    Op::PeekAdvance { n, k } => {
                        let (a, _, ma) = peek_parts(it.peek_n(*n));
                        if *k < a.len() {
                            let target = a[*k];
                            it.advance_to(target.end);
                            st.count("advance_to");
                            if base > 0 {
                                st.count("advance_to_with_nonzero_base");
                                st.nontrivial = true;
                            }
                            // documented parser duty: enter the target mode if the skipped prefix
                            // contains the mode-switching token (always the last peeked one)
                            if *k == a.len() - 1 {
                                if let Some(m2) = ma {
                                    it.set_mode(m2);
                                    mode = m2;
                                }
                            }
                            // twin: consume k+1 tokens with next()
                            for i in 0..=*k {
                                let b = twin.next().map(|m| shift(Tok::of(&m), base));
                                if b != Some(a[i]) {
                                    return Err(Failure::new(
                                        "c10.suffix",
                                        format!("step {}: peeked match {} differs from next() on the suffix twin", step, i),
                                    )
                                    .exp_obs(b, a[i]));
                                }
                            }
                            consumed += k + 1;
                            pos = text.char_index(target.end).unwrap_or(pos);
                            let (gm, tm) = (it.current_mode(), twin.current_mode());
                            if gm != tm {
                                return Err(Failure::new(
                                    "c10.mode",
                                    "mode after advance_to (+set_mode) differs from the mode after consuming the same tokens",
                                )
                                .exp_obs(tm, gm));
                            }
                        }
                    }
                    _ => {}
                }
            }
            // run both to the end
            for _ in 0..text.len() + 2 {
                let a = it.next().map(|m| Tok::of(&m));
                let b = twin.next().map(|m| shift(Tok::of(&m), base));
                if a != b {
                    return Err(Failure::new(
                        "c10.suffix",
                        format!("tail: next() differs from the scan of the suffix input[{}..]", base),
                    )
                    .exp_obs(b, a));
                }
                pos = verify_next_candidate(&model, mode, &text, pos, a, "c10.position")?;
                match a {
                    Some(t) => {
                        if let Some(m2) = model.transition(mode, t.tt) {
                            mode = m2;
                        }
                    }
                    None => break,
                }
            }
            Ok(st)
        });
        match r {
            Err(p) => Err(Failure::panic("c10.panic", "history panicked", p)),
            Ok(Err(f)) => Err(f),
            Ok(Ok(s2)) => Ok(s2),
        }
    }
}

// =================================================================================================
// C11

pub struct C11;

impl Check for C11 {
    fn id(&self) -> &'static str {
        "C11"
    }
    fn rule(&self) -> &'static str {
        "case = mode graph with token sets that are not total (unmatched characters frequent) x input x history of next | peek_n(n), n in 0..6 | set_mode | set_offset; oracles = (agreement) the matches of peek_n(n) must equal what a scout iterator over the rest of the input returns for the next calls of next() in the unchanged current mode, stopping exactly at n, at a token with a transition in the current mode (inclusive) or at the end of input; the variant and the reported target mode must be the prescribed ones, and the following next() calls on the iterator itself must return the same matches; (purity) the same history with all peeks removed runs on a twin iterator and every non-peek observation (tokens, current_mode, position(o)) must be identical; non-trivial = a peek whose window contains an unmatched character, or ends by mode switch, or reaches the end of input with >= 1 match"
    }
    fn cases(&self, thorough: bool) -> usize {
        if thorough {
            10_000_000
        } else {
            150_000
        }
    }
    fn generate(&self, d: &mut Dec, thorough: bool) -> Case {
        let mut case = gen_mode_graph_case(d, thorough, 30);
        let text = Text::new(case.input());
        let nm = case.modes.len();
        if nm >= 2 && d.chance(40) {
            case.extra = serde_json::json!({"scanner_mode_before": 1 + d.below(nm - 1)});
        }
        let nops = 3 + d.below(if thorough { 30 } else { 18 });
        for _ in 0..nops {
            case.ops.push(match d.weighted(&[10, 8, 2, 2, 2]) {
                0 => Op::Next,
                1 => {
                    if text.len() > 140 && d.bool() {
                        // a long input: windows of more than 128 / 256 tokens actually fill up
                        Op::PeekN { n: *d.pick(&[127usize, 128, 129, 130, 200, 256, 257, 1000]) }
                    } else {
                        Op::PeekN { n: crate::gen::gen_peek_n_opt(d, 6, true) }
                    }
                }
                2 => Op::SetMode { m: d.below(nm) },
                3 => {
                    let o = text.offs[d.below(text.offs.len())];
                    if d.chance(64) {
                        Op::RebaseWithOffset { o }
                    } else {
                        Op::SetOffset { o }
                    }
                }
                _ => Op::Position {
                    o: text.offs[d.below(text.offs.len())],
                },
            });
        }
        case
    }
    fn check(&self, case: &Case) -> CheckResult {
        if let Err(r) = domain_ok(case) {
            return Ok(discard(r));
        }
        if case.inputs.len() != 1 {
            return Ok(discard("discard_shape"));
        }
        let input = case.input();
        let text = Text::new(input);
        let nm = case.modes.len();
        for op in &case.ops {
            match op {
                Op::Next | Op::PeekN { .. } => {}
                Op::SetMode { m } if *m < nm => {}
                Op::SetOffset { o } | Op::Position { o } | Op::RebaseWithOffset { o }
                    if *o <= input.len() && input.is_char_boundary(*o) => {}
                _ => return Ok(discard("discard_op")),
            }
        }
        let mut st = CaseStats::default();
        let mut scanner = match build_guarded(case, false)? {
            Ok(s) => s,
            Err(_) => {
                st.count("build_failed");
                st.inconclusive = true;
                return Ok(st);
            }
        };
        // the Scanner itself may have been left in any mode: iterators start in mode 0 regardless
        if let Some(m) = case.extra.get("scanner_mode_before").and_then(|v| v.as_u64()) {
            if (m as usize) < case.modes.len() {
                use scnr::ScannerModeSwitcher;
                scanner.set_mode(m as usize);
                st.count("scanner_left_in_another_mode");
            }
        }
        let model = case.model();
        let n = text.len();

        let r = guard(|| -> Result<CaseStats, Failure> {
            let mut st = CaseStats::default();
            let mut it = scanner.find_iter(input);
            let mut twin = scanner.find_iter(input); // same history without the peeks
            let mut pos = 0usize;
            let mut mode = 0usize;
            let mut pending: std::collections::VecDeque<Tok> = Default::default();
            let ops_then_tail = case
                .ops
                .iter()
                .cloned()
                .chain(std::iter::repeat(Op::Next).take(n + 1));
            let mut ended = false;
            for (step, op) in ops_then_tail.enumerate() {
                let in_tail = step >= case.ops.len();
                if in_tail && ended {
                    break;
                }
                match &op {
                    Op::Next => {
                        let a = it.next().map(|m| Tok::of(&m));
                        let b = twin.next().map(|m| Tok::of(&m));
                        if a != b {
                            return Err(Failure::new(
                                "c11.purity",
                                format!("step {}: next() differs from the same history without peeks", step),
                            )
                            .exp_obs(b, a));
                        }
                        if let Some(exp) = pending.pop_front() {
                            if a != Some(exp) {
                                return Err(Failure::new(
                                    "c11.agreement",
                                    format!("step {}: next() differs from what the preceding peek_n announced", step),
                                )
                                .exp_obs(exp, a));
                            }
                        }
                        // keep the model position in step (the stream itself is judged by C01/C05)
                        match a {
                            Some(t) => {
                                pos = text.char_index(t.end).unwrap_or(pos);
                                if let Some(m2) = model.transition(mode, t.tt) {
                                    mode = m2;
                                    pending.clear();
                                }
                            }
                            None => {
                                pos = n;
                                ended = true;
                            }
                        }
                    }
                    Op::PeekN { n: k } => {
                        let mode_before = it.current_mode();
                        let (got, variant, target) = peek_parts(it.peek_n(*k));
                        st.count("peeks");
                        let mode_after = it.current_mode();
                        if mode_after != mode_before {
                            return Err(Failure::new("c11.purity", "peek_n changed current_mode()").exp_obs(mode_before, mode_after));
                        }
                        // what the next calls of next() would return: a scout iterator over the
                        // suffix that starts at the current position, in the current mode
                        let pos_b = text.offs[pos.min(n)];
                        let mut scout = scanner.find_iter(&input[pos_b..]);
                        scout.set_mode(mode);
                        let mut exp_matches: Vec<Tok> = Vec::new();
                        let mut stop: Option<(&'static str, Option<usize>)> = None;
                        let mut reached_end = false;
                        while exp_matches.len() < *k {
                            match scout.next() {
                                Some(m) => {
                                    let t = shift(Tok::of(&m), pos_b);
                                    exp_matches.push(t);
                                    if let Some(m2) = model.transition(mode, t.tt) {
                                        stop = Some(("MatchesReachedModeSwitch", Some(m2)));
                                        break;
                                    }
                                }
                                None => {
                                    reached_end = true;
                                    break;
                                }
                            }
                        }
                        if got != exp_matches {
                            return Err(Failure::new(
                                "c11.agreement",
                                format!(
                                    "step {}: peek_n({}) differs from what the next calls of next() return (scan of the rest of the input from byte {} in mode {})",
                                    step, k, pos_b, mode
                                ),
                            )
                            .exp_obs(&exp_matches, &got));
                        }
                        let mut window_has_gap = false;
                        let mut p = pos_b;
                        for t in &got {
                            if t.start > p {
                                window_has_gap = true;
                            }
                            p = t.end;
                        }
                        if reached_end && p < input.len() {
                            window_has_gap = true;
                        }
                        let expected: Vec<(&'static str, Option<usize>)> = if let Some(s) = stop {
                            if got.len() == *k {
                                // rule 9: both classifications are accepted
                                vec![s, ("Matches", None)]
                            } else {
                                vec![s]
                            }
                        } else if got.len() == *k {
                            vec![("Matches", None)]
                        } else if got.is_empty() {
                            vec![("NotFound", None)]
                        } else {
                            vec![("MatchesReachedEnd", None)]
                        };
                        if !expected.contains(&(variant, target)) {
                            return Err(Failure::new(
                                "c11.classification",
                                format!("peek_n({}) classified its outcome wrongly", k),
                            )
                            .exp_obs(&expected, (variant, target, &got)));
                        }
                        if window_has_gap {
                            st.count("peek_window_with_unmatched_char");
                            st.nontrivial = true;
                        }
                        if variant == "MatchesReachedModeSwitch" {
                            st.count("peek_ended_by_mode_switch");
                            st.nontrivial = true;
                        }
                        if variant == "MatchesReachedEnd" {
                            st.count("peek_reached_end");
                            st.nontrivial = true;
                        }
                        if *k > 0 {
                            pending = got.into_iter().collect();
                        }
                    }
                    Op::SetMode { m } => {
                        it.set_mode(*m);
                        twin.set_mode(*m);
                        mode = *m;
                        pending.clear();
                    }
                    Op::SetOffset { o } => {
                        it.set_offset(*o);
                        twin.set_offset(*o);
                        pos = text.char_index(*o).unwrap();
                        pending.clear();
                        ended = false;
                    }
                    Op::RebaseWithOffset { o } => {
                        it = it.with_offset(*o);
                        twin = twin.with_offset(*o);
                        pos = text.char_index(*o).unwrap();
                        pending.clear();
                        ended = false;
                    }
                    Op::Position { o } => {
                        // "nor the outcome of any later call": line/column answers are the same
                        // with and without the peeks
                        let a = PositionProvider::position(&it, *o);
                        let b = PositionProvider::position(&twin, *o);
                        if a != b {
                            return Err(Failure::new(
                                "c11.purity",
                                format!("step {}: position({}) differs from the same history without peeks", step, o),
                            )
                            .exp_obs(b, a));
                        }
                        st.count("position_queries");
                    }
                    _ => {}
                }
                let (a, b) = (it.current_mode(), twin.current_mode());
                if a != b {
                    return Err(Failure::new(
                        "c11.purity",
                        format!("step {}: current_mode() differs from the same history without peeks", step),
                    )
                    .exp_obs(b, a));
                }
            }
            Ok(st)
        });
        match r {
            Err(p) => Err(Failure::panic("c11.panic", "history panicked", p)),
            Ok(Err(f)) => Err(f),
            Ok(Ok(s2)) => {
                st.counters.extend(s2.counters);
                st.nontrivial = s2.nontrivial;
                Ok(st)
            }
        }
    }
}

// =================================================================================================
// C09

pub struct C09;

/// Offsets directly behind each line feed, in ascending order (computed once per input).
fn line_starts(input: &str) -> Vec<usize> {
    input
        .bytes()
        .enumerate()
        .filter(|(_, b)| *b == b'\n')
        .map(|(i, _)| i + 1)
        .collect()
}

/// Line and column of a byte offset from the table of line starts of the input.
fn true_position(starts: &[usize], len: usize, o: usize) -> (usize, usize) {
    let o = o.min(len);
    // number of line feeds in input[..o] = number of line starts <= o
    let k = starts.partition_point(|s| *s <= o);
    let line_start = if k == 0 { 0 } else { starts[k - 1] };
    (1 + k, o - line_start + 1)
}

/// Acceptable positions for an *end* offset / a queried offset: the true one and, directly behind
/// a line break, also (line of the break, column behind it) (domain rule 10).
fn acceptable_positions(input: &str, starts: &[usize], o: usize) -> Vec<(usize, usize)> {
    let mut v = vec![true_position(starts, input.len(), o)];
    if o > 0 && o <= input.len() && input.as_bytes()[o - 1] == b'\n' {
        let (l, c) = true_position(starts, input.len(), o - 1);
        v.push((l, c + 1));
    }
    v
}

fn gen_newline_rich_input(d: &mut Dec, model: &Model, max_chars: usize) -> String {
    let mut s = String::new();
    let pieces = 1 + d.below(8);
    for _ in 0..pieces {
        match d.weighted(&[6, 5, 2, 2, 2]) {
            0 => s.push_str(&crate::gen::gen_input(d, model, 6)),
            1 => s.push('\n'),
            2 => s.push_str("\r\n"),
            3 => s.push(*d.pick(&['é', '中', '😀', ' '])),
            _ => s.push(*d.pick(crate::gen::FOREIGN)),
        }
    }
    if d.chance(90) {
        s.push('\n');
    }
    if s.chars().count() > max_chars {
        s = s.chars().take(max_chars).collect();
    }
    s
}

impl Check for C09 {
    fn id(&self) -> &'static str {
        "C09"
    }
    fn rule(&self) -> &'static str {
        "case = mode graph whose token sets do / do not match newlines x newline-rich input (empty lines, trailing newline, \\r\\n, multi-byte characters around breaks, unmatched characters) x history in one of two drivers: (a) WithPositions iterator with next | set_offset(o <= furthest consumed offset) | set_mode | exhaust | position(o <= frontier); (b) bare FindMatches with the same plus peek_n and peek_n+advance_to, asking position(start) and position(end) after every next like the adapter does; oracle = line = 1 + number of \\n before the offset, column = byte distance to the line start + 1, recomputed from the text alone; start positions exact, end positions and position(o) also accept (line of the break, column behind it) directly behind a \\n; non-trivial = a reset issued after a newline was consumed, or exhaustion of an input ending in \\n, followed by a position observation"
    }
    fn cases(&self, thorough: bool) -> usize {
        if thorough {
            10_000_000
        } else {
            150_000
        }
    }
    fn generate(&self, d: &mut Dec, thorough: bool) -> Case {
        let mut case = gen_mode_graph_case(d, thorough, 16);
        // make a newline-matching pattern likely in some mode
        if d.chance(140) {
            let mi = d.below(case.modes.len());
            let rx = match d.below(3) {
                0 => crate::rx::Rx::Lit('\n', crate::rx::LitForm::Special),
                1 => crate::rx::parse_supported(r"\r\n|\r|\n"),
                _ => crate::rx::parse_supported(r"\s+"),
            };
            let mut tt = 20;
            while case.modes[mi].pats.iter().any(|p| p.tt == tt) {
                tt += 1;
            }
            let at = d.below(case.modes[mi].pats.len() + 1);
            case.modes[mi].pats.insert(at, PatSpec { rx, tt, la: None });
        }
        let model = case.model();
        let max = if thorough { 64 } else { 32 };
        case.inputs = vec![gen_newline_rich_input(d, &model, max)];
        if d.chance(1) && d.chance(64) {
            // more than 65 535 lines, or one line longer than 65 535 bytes (on a configuration
            // that scans in linear time)
            case.modes = crate::gen::benign_modes();
            let mut s = String::new();
            if d.bool() {
                for i in 0..66_000 + d.below(2_000) {
                    s.push(if i % 3 == 0 { 'b' } else { 'a' });
                    s.push('\n');
                }
            } else {
                s.push_str("ab\n");
                for _ in 0..66_000 + d.below(2_000) {
                    s.push(*d.pick(&['a', 'b', ' ']));
                }
                s.push_str("\nab ab\n");
            }
            case.inputs = vec![s];
        } else if d.chance(6) {
            // one token spanning many lines (more than 16 / 64 line breaks inside a single token)
            let rx = match d.below(3) {
                0 => crate::rx::parse_supported(r"[^#]+"),
                1 => crate::rx::parse_supported(r"/\*([^*]|\*[^/])*\*/"),
                _ => crate::rx::parse_supported(r"(\n|[a-z ])+"),
            };
            let opener = if matches!(rx, crate::rx::Rx::Concat(_)) { "/*" } else { "" };
            let closer = if opener.is_empty() { "#" } else { "*/" };
            let mut tt = 40;
            while case.modes[0].pats.iter().any(|p| p.tt == tt) {
                tt += 1;
            }
            case.modes[0].pats.insert(0, PatSpec { rx, tt, la: None });
            let lines = match d.below(4) {
                0 => 15 + d.below(5),
                1 => 63 + d.below(5),
                2 => 17 + d.below(60),
                _ => 128 + d.below(6),
            };
            let mut s = String::from(opener);
            for _ in 0..lines {
                for _ in 0..d.below(4) {
                    s.push(*d.pick(&['a', 'b', ' ', 'z']));
                }
                s.push('\n');
            }
            s.push_str("ab");
            s.push_str(closer);
            s.push_str("\nab\n");
            case.inputs = vec![s];
        }
        let text = Text::new(case.input());
        let nm = case.modes.len();
        let bare = d.bool();
        case.extra = serde_json::json!({"driver": if bare {"find_matches"} else {"with_positions"}});
        let nops = 3 + d.below(if thorough { 30 } else { 18 });
        for _ in 0..nops {
            let w_peek = if bare { 3 } else { 0 };
            case.ops.push(match d.weighted(&[12, 5, 1, 1, 5, w_peek, w_peek]) {
                0 => Op::Next,
                // offsets are clamped to the frontier when the history is interpreted
                1 => Op::SetOffset {
                    o: text.offs[d.below(text.offs.len())],
                },
                2 => Op::SetMode { m: d.below(nm) },
                3 => Op::Exhaust,
                4 => Op::Position {
                    o: text.offs[d.below(text.offs.len())],
                },
                5 => Op::PeekN { n: crate::gen::gen_peek_n(d, 4) },
                _ => {
                    let n = 1 + d.below(3);
                    Op::PeekAdvance { n, k: d.below(n) }
                }
            });
        }
        case
    }
    fn check(&self, case: &Case) -> CheckResult {
        if let Err(r) = domain_ok(case) {
            return Ok(discard(r));
        }
        if case.inputs.len() != 1 {
            return Ok(discard("discard_shape"));
        }
        let input = case.input();
        let text = Text::new(input);
        let nm = case.modes.len();
        let bare = case.extra["driver"].as_str() == Some("find_matches");
        for op in &case.ops {
            match op {
                Op::Next | Op::Exhaust => {}
                Op::SetMode { m } if *m < nm => {}
                Op::SetOffset { o } | Op::Position { o }
                    if *o <= input.len() && input.is_char_boundary(*o) => {}
                Op::PeekN { .. } if bare => {}
                Op::PeekAdvance { n, k } if bare && k < n => {}
                _ => return Ok(discard("discard_op")),
            }
        }
        let mut st = CaseStats::default();
        let scanner = match build_guarded(case, false)? {
            Ok(s) => s,
            Err(_) => {
                st.count("build_failed");
                st.inconclusive = true;
                return Ok(st);
            }
        };
        st.flag("input_with_more_than_16_lines", input.matches('\n').count() > 16);
        st.flag("input_beyond_65535_bytes", input.len() > 65_535);
        st.flag("driver_find_matches", bare);
        st.flag("driver_with_positions", !bare);
        let len = input.len();
        let starts = line_starts(input);
        let _ = boundary_offsets(&text);

        // the two drivers share the interpretation through a small trait object
        enum Drv<'h> {
            Bare(scnr::FindMatches<'h>),
            Pos(scnr::WithPositions<scnr::FindMatches<'h>>),
        }
        impl Drv<'_> {
            /// next token with (start position, end position)
            fn next(&mut self) -> Option<(Tok, (usize, usize), (usize, usize))> {
                match self {
                    Drv::Bare(it) => it.next().map(|m| {
                        let s = PositionProvider::position(it, m.start());
                        let e = PositionProvider::position(it, m.end());
                        (Tok::of(&m), (s.line, s.column), (e.line, e.column))
                    }),
                    Drv::Pos(it) => it.next().map(|m| {
                        (
                            Tok {
                                tt: m.token_type(),
                                start: m.start(),
                                end: m.end(),
                            },
                            (m.start_position().line, m.start_position().column),
                            (m.end_position().line, m.end_position().column),
                        )
                    }),
                }
            }
            fn position(&self, o: usize) -> (usize, usize) {
                let p = match self {
                    Drv::Bare(it) => PositionProvider::position(it, o),
                    Drv::Pos(it) => PositionProvider::position(it, o),
                };
                (p.line, p.column)
            }
            fn set_offset(&mut self, o: usize) {
                match self {
                    Drv::Bare(it) => PositionProvider::set_offset(it, o),
                    Drv::Pos(it) => PositionProvider::set_offset(it, o),
                }
            }
            fn set_mode(&mut self, m: usize) {
                match self {
                    Drv::Bare(it) => it.set_mode(m),
                    Drv::Pos(it) => it.set_mode(m),
                }
            }
        }

        let r = guard(|| -> Result<CaseStats, Failure> {
            let mut st = CaseStats::default();
            let mut it = if bare {
                Drv::Bare(scanner.find_iter(input))
            } else {
                Drv::Pos(scanner.find_iter(input).with_positions())
            };
            let mut frontier = 0usize;
            let mut newline_consumed = false;
            let mut armed = false; // a non-trivial situation was created; next observation counts
            let observe_token = |t: &Tok,
                                     sp: (usize, usize),
                                     ep: (usize, usize),
                                     step: usize|
             -> Result<(), Failure> {
                let es = true_position(&starts, input.len(), t.start);
                if sp != es {
                    return Err(Failure::new(
                        "c09.start",
                        format!("step {}: start position of token {:?} is wrong", step, t),
                    )
                    .exp_obs(es, sp));
                }
                let ee = acceptable_positions(input, &starts, t.end);
                if !ee.contains(&ep) {
                    return Err(Failure::new(
                        "c09.end",
                        format!("step {}: end position of token {:?} is wrong", step, t),
                    )
                    .exp_obs(ee, ep));
                }
                Ok(())
            };
            let ops_len = case.ops.len();
            for (step, op) in case.ops.iter().enumerate() {
                match op {
                    Op::Next => {
                        match it.next() {
                            Some((t, sp, ep)) => {
                                observe_token(&t, sp, ep, step)?;
                                st.count("tokens_with_positions");
                                if armed {
                                    st.nontrivial = true;
                                }
                                frontier = frontier.max(t.end);
                                if input[..t.end].contains('\n') {
                                    newline_consumed = true;
                                }
                            }
                            None => {
                                frontier = len;
                                if input.ends_with('\n') {
                                    armed = true;
                                    st.count("exhausted_with_trailing_newline");
                                }
                                if input.contains('\n') {
                                    newline_consumed = true;
                                }
                            }
                        }
                    }
                    Op::Exhaust => {
                        for _ in 0..text.len() + 2 {
                            match it.next() {
                                Some((t, sp, ep)) => {
                                    observe_token(&t, sp, ep, step)?;
                                    st.count("tokens_with_positions");
                                    if armed {
                                        st.nontrivial = true;
                                    }
                                }
                                None => break,
                            }
                        }
                        frontier = len;
                        if input.ends_with('\n') {
                            armed = true;
                            st.count("exhausted_with_trailing_newline");
                        }
                        if input.contains('\n') {
                            newline_consumed = true;
                        }
                    }
                    Op::SetOffset { o } => {
                        // only already scanned offsets (domain rule 11): clamp to the frontier,
                        // staying on a character boundary
                        let mut oo = (*o).min(frontier);
                        while !input.is_char_boundary(oo) {
                            oo -= 1;
                        }
                        it.set_offset(oo);
                        st.count("resets");
                        if newline_consumed {
                            st.count("resets_after_newline");
                            armed = true;
                        }
                    }
                    Op::SetMode { m } => it.set_mode(*m),
                    Op::Position { o } => {
                        let mut oo = (*o).min(frontier);
                        while !input.is_char_boundary(oo) {
                            oo -= 1;
                        }
                        let got = it.position(oo);
                        let exp = acceptable_positions(input, &starts, oo);
                        if !exp.contains(&got) {
                            return Err(Failure::new(
                                "c09.position",
                                format!("step {}: position({}) is wrong (furthest consumed offset {})", step, oo, frontier),
                            )
                            .exp_obs(exp, got));
                        }
                        st.count("position_queries");
                        if armed {
                            st.nontrivial = true;
                        }
                    }
                    Op::PeekN { n } => {
                        if let Drv::Bare(f) = &mut it {
                            let _ = f.peek_n(*n);
                            st.count("peeks");
                        }
                    }
                    Op::PeekAdvance { n, k } => {
                        if let Drv::Bare(f) = &mut it {
                            let (a, _, ma) = peek_parts(f.peek_n(*n));
                            if *k < a.len() {
                                f.advance_to(a[*k].end);
                                st.count("advance_to");
                                frontier = frontier.max(a[*k].end);
                                if input[..a[*k].end].contains('\n') {
                                    newline_consumed = true;
                                }
                                if *k == a.len() - 1 {
                                    if let Some(m2) = ma {
                                        f.set_mode(m2);
                                    }
                                }
                            }
                        }
                    }
                    _ => {}
                }
                let _ = ops_len;
            }
            Ok(st)
        });
        match r {
            Err(p) => Err(Failure::panic("c09.panic", "history panicked", p)),
            Ok(Err(f)) => Err(f),
            Ok(Ok(s2)) => {
                st.counters.extend(s2.counters);
                st.nontrivial = s2.nontrivial;
                Ok(st)
            }
        }
    }
}
