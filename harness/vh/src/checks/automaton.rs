//! C02 (compiled automaton = pattern languages, for every string) and C03 (minimization preserves
//! what is recognised): exact decisions per generated program over the alphabet atoms.

use super::common::*;
use crate::automata::*;
use crate::case::*;
use crate::dec::Dec;
use crate::gen::{self, GenParams};
use crate::model::{self, Text};
use crate::run::{guard, Aggregate, CaseStats, Check, CheckResult, Failure};
use crate::rx;
use crate::sets::BitSet;
use serde_json::{json, Value};

pub const PRODUCT_CAP: usize = 200_000;

/// Programs from the repository's corpora (translated through regex-syntax). Modes containing a
/// construct outside the reference's domain (bare `.` in brackets) are dropped and counted.
pub fn corpus_cases() -> Vec<Case> {
    let mut files: Vec<std::path::PathBuf> = Vec::new();
    if let Ok(rd) = std::fs::read_dir("/repo/scnr/tests/data") {
        for e in rd.flatten() {
            let p = e.path();
            let name = p.file_name().unwrap().to_string_lossy().to_string();
            if name.ends_with(".json") && !name.ends_with("_tokens.json") {
                files.push(p);
            }
        }
    }
    files.push("/repo/scnr/benches/veryl_modes.json".into());
    files.sort();
    let mut out = Vec::new();
    for f in files {
        let Ok(s) = std::fs::read_to_string(&f) else {
            continue;
        };
        let Ok(v) = serde_json::from_str::<Value>(&s) else {
            continue;
        };
        let Some(arr) = v.as_array() else { continue };
        let mut modes = Vec::new();
        for m in arr {
            if let Ok(ms) = ModeSpec::from_json(m) {
                modes.push(ms);
            }
        }
        if modes.is_empty() {
            continue;
        }
        out.push(Case {
            modes,
            extra: json!({"corpus": f.to_string_lossy()}),
            ..Case::default()
        });
    }
    // README examples
    out.extend(readme_cases());
    out
}

fn readme_cases() -> Vec<Case> {
    let pats = [
        r";",
        r"0|[1-9][0-9]*",
        r"//.*(\r\n|\r|\n)",
        r"/\*([^*]|\*[^/])*\*/",
        r"[a-zA-Z_]\w*",
        r"=",
    ];
    let m1 = ModeSpec {
        name: "INITIAL".into(),
        pats: pats
            .iter()
            .enumerate()
            .map(|(i, p)| PatSpec {
                rx: rx::parse_supported(p),
                tt: i,
                la: None,
            })
            .collect(),
        transitions: vec![],
    };
    vec![Case {
        modes: vec![m1],
        extra: json!({"corpus": "README pattern list"}),
        ..Case::default()
    }]
}

/// Splits a corpus case into the part the reference can judge: modes whose patterns all translate.
fn judged_modes(case: &Case) -> Vec<bool> {
    fn raw(r: &rx::Rx) -> bool {
        match r {
            rx::Rx::Raw(_) => true,
            rx::Rx::Concat(v) | rx::Rx::Alt(v) => v.iter().any(raw),
            rx::Rx::Repeat(i, ..) | rx::Rx::Group(i, _) => raw(i),
            _ => false,
        }
    }
    case.modes
        .iter()
        .map(|m| {
            !m.pats
                .iter()
                .any(|p| raw(&p.rx) || p.la.as_ref().is_some_and(|l| raw(&l.rx)))
        })
        .collect()
}

fn tiny_programs() -> Vec<Case> {
    // the bounded-exhaustive pattern pairs of C01 without their inputs
    super::scan::tiny_exhaustive_cases()
        .into_iter()
        .map(|mut c| {
            c.inputs.clear();
            c.add_patterns = false;
            c
        })
        .collect()
}

/// Gives two or three patterns of one mode the same token type (keyword lists do that).
pub fn share_token_type(d: &mut Dec, modes: &mut [ModeSpec]) {
    let mi = d.below(modes.len());
    let n = modes[mi].pats.len();
    if n < 2 {
        return;
    }
    let i = d.below(n);
    for _ in 0..1 + d.below(2) {
        let j = d.below(n);
        if j != i {
            modes[mi].pats[j].tt = modes[mi].pats[i].tt;
        }
    }
    // transitions stay sorted and distinct: they are keyed by token type, which did not change
    // for the table; entries for a vanished type are harmless
}

pub fn gen_program(d: &mut Dec, thorough: bool) -> Case {
    let p = GenParams {
        max_pats: 4,
        ..GenParams::for_tier(thorough)
    }
    .with_lookaheads(40)
    .with_modes(2);
    let mut modes = gen::gen_modes(d, &p);
    if d.chance(3) {
        // many patterns / more than 64 registered classes
        let mi = d.below(modes.len());
        modes[mi] = gen::gen_large_mode(d, &p, gen::MODE_NAMES[mi]);
    } else if d.chance(8) {
        // larger repetition counts around powers of two
        let mi = d.below(modes.len());
        let pi = d.below(modes[mi].pats.len());
        let n = *d.pick(&[15u32, 16, 17, 31, 33, 63, 64, 65, 127, 129, 255, 257, 300, 513]);
        let inner = crate::rx::Rx::Lit(gen::gen_char(d), crate::rx::LitForm::Verbatim);
        let rep = match d.below(3) {
            0 => crate::rx::Rx::Repeat(Box::new(inner), n, Some(n)),
            1 => crate::rx::Rx::Repeat(Box::new(inner), n, None),
            _ => crate::rx::Rx::Repeat(Box::new(inner), n - 2, Some(n)),
        };
        modes[mi].pats[pi].rx = crate::rx::Rx::Concat(vec![modes[mi].pats[pi].rx.clone(), rep]);
    }
    if d.chance(24) {
        // a lookahead pattern that can match the empty string (legal; its automaton must still not
        // accept the empty string)
        let mi = d.below(modes.len());
        let pi = d.below(modes[mi].pats.len());
        let mut budget = 6;
        let depth = d.below(2);
        let body = gen::gen_rx(d, &p, depth, &mut budget);
        let rx = if crate::rx::nullable(&body) {
            body
        } else if d.bool() {
            crate::rx::Rx::Repeat(Box::new(body), 0, None)
        } else {
            crate::rx::Rx::Repeat(Box::new(body), 0, Some(1))
        };
        modes[mi].pats[pi].la = Some(LaSpec {
            positive: d.bool(),
            rx,
        });
    }
    if d.chance(96) {
        // keyword sets (with near twins): sibling states that differ deep inside, several
        // targets on one class
        let mi = d.below(modes.len());
        let pi = d.below(modes[mi].pats.len());
        modes[mi].pats[pi].rx = gen::gen_word_sets(d);
    }
    if d.chance(24) {
        // a pattern that can never match a non-empty string (no accepting state of its own)
        let mi = d.below(modes.len());
        let pi = d.below(modes[mi].pats.len());
        modes[mi].pats[pi].rx = match d.below(3) {
            0 => crate::rx::Rx::Empty,
            1 => crate::rx::Rx::Repeat(Box::new(crate::rx::Rx::Lit(gen::gen_char(d), crate::rx::LitForm::Verbatim)), 0, Some(0)),
            _ => crate::rx::Rx::Repeat(Box::new(crate::rx::Rx::Group(Box::new(crate::rx::Rx::Empty), crate::rx::GroupKind::NonCapture)), 1, None),
        };
    }
    if d.chance(20) {
        // a degenerate mode: one or two patterns that match only the empty string next to one run
        // of a single character (`aaa`, `a{3}`, `a{2,}b`): few states, few groups, refinement that
        // needs several rounds with a single split each
        let mi = d.below(modes.len());
        let c = gen::gen_char(d);
        let lit = |c: char| crate::rx::Rx::Lit(c, crate::rx::LitForm::Verbatim);
        let n = 2 + d.below(4);
        let mut run = match d.below(3) {
            0 => crate::rx::Rx::Concat((0..n).map(|_| lit(c)).collect()),
            1 => crate::rx::Rx::Repeat(Box::new(lit(c)), n as u32, Some(n as u32)),
            _ => crate::rx::Rx::Repeat(Box::new(lit(c)), n as u32, None),
        };
        if d.chance(64) {
            run = crate::rx::Rx::Concat(vec![run, lit(gen::gen_char(d))]);
        }
        let trivial = |d: &mut Dec| match d.below(4) {
            0 => crate::rx::Rx::Empty,
            1 => crate::rx::Rx::Repeat(Box::new(lit('b')), 0, Some(0)),
            2 => crate::rx::Rx::Group(Box::new(crate::rx::Rx::Empty), crate::rx::GroupKind::Capture),
            _ => crate::rx::Rx::Group(Box::new(crate::rx::Rx::Alt(vec![crate::rx::Rx::Empty, crate::rx::Rx::Empty])), crate::rx::GroupKind::NonCapture),
        };
        let mut pats = vec![PatSpec { rx: run, tt: 1 + d.below(3), la: None }];
        for k in 0..1 + d.below(2) {
            let at = d.below(pats.len() + 1);
            pats.insert(at, PatSpec { rx: trivial(d), tt: 5 + k, la: None });
        }
        modes[mi].pats = pats;
        modes[mi].transitions.clear();
    }
    if d.chance(56) {
        share_token_type(d, &mut modes);
    }
    Case {
        modes,
        ..Case::default()
    }
}

fn program_features(case: &Case, st: &mut CaseStats) {
    let pats: Vec<&PatSpec> = case.modes.iter().flat_map(|m| m.pats.iter()).collect();
    st.flag("nullable_pattern", pats.iter().any(|p| rx::nullable(&p.rx)));
    st.flag(
        "nullable_lookahead",
        pats.iter().any(|p| p.la.as_ref().is_some_and(|l| rx::nullable(&l.rx))),
    );
    st.flag(
        "token_type_shared_within_a_mode",
        case.modes.iter().any(|m| {
            m.pats.iter().enumerate().any(|(i, p)| m.pats[..i].iter().any(|q| q.tt == p.tt))
        }),
    );
    st.flag(
        "empty_alternative",
        pats.iter().any(|p| rx::has_empty_alternative(&p.rx)),
    );
    st.flag(
        "counted_repetition",
        pats.iter().any(|p| rx::has_counted_repeat(&p.rx)),
    );
    st.flag("lookahead", pats.iter().any(|p| p.la.is_some()));
    st.flag("corpus_program", case.extra.get("corpus").is_some());
    st.flag("more_than_64_patterns_in_a_mode", case.modes.iter().any(|m| m.pats.len() > 64));
}

pub struct C02;

impl Check for C02 {
    fn id(&self) -> &'static str {
        "C02"
    }
    fn level(&self) -> &'static str {
        "translation_validation"
    }
    fn rule(&self) -> &'static str {
        "program = list of modes (1-4 patterns each, lookaheads of both polarities, ~9% with a nullable lookahead pattern, ~20% with a token type shared by several patterns of a mode, ~37% with a keyword-set pattern (near twins), ~9% with a pattern that matches only the empty string, ~8% with a degenerate mode made of such patterns and one run of a single character) from the generator, the bounded-exhaustive tiny pattern pairs, and the repository corpora (tests/data/*.json, benches/veryl_modes.json, README list) translated through regex-syntax; per program the equality 'token types accepted by the compiled automaton after w = token types whose pattern matches w' is decided for ALL non-empty strings w by a breadth-first exploration of the product of the compiled automaton (sets of states, from the feature-gated dump) with the Brzozowski-derivative terms of the source patterns over the alphabet atoms (classes of scalar values with identical membership in every registered class of the scanner, measured with the scanner's own predicate on all 1 112 064 scalar values, and in every class of the source patterns); the same for each lookahead automaton; also: start state not accepting, class ids registered; a difference yields a shortest witness which is confirmed by direct simulation on the witness string and by the set-based matcher; non-trivial = program with >= 2 patterns in a mode whose languages overlap (a reachable product state accepts two token types), or with a nullable pattern, an empty alternative, a counted repetition"
    }
    fn assumptions(&self) -> Vec<String> {
        vec![
            "the feature-gated dump (Scanner::verif_dump) shows the automata scanning really uses; it is a plain field-by-field copy".into(),
            "named classes inside source patterns are taken from their measured base sets (wording of C08)".into(),
            "128-bit xor signatures decide atom equality (a collision could only hide a difference, never create one)".into(),
        ]
    }
    fn cases(&self, thorough: bool) -> usize {
        if thorough {
            80_000
        } else {
            4_000
        }
    }
    fn fixed_cases(&self, _thorough: bool) -> Vec<Case> {
        let mut v = corpus_cases();
        v.extend(tiny_programs());
        v
    }
    fn generate(&self, d: &mut Dec, thorough: bool) -> Case {
        gen_program(d, thorough)
    }
    fn extra_coverage(&self, agg: &Aggregate) -> Value {
        json!({
            "programs": agg.evaluations - agg.counters.get("discarded").copied().unwrap_or(0),
            "disagreements_checked": agg.counters.get("disagreements_checked").copied().unwrap_or(0),
            "product_states": agg.counters.get("product_states").copied().unwrap_or(0),
            "automata_compared": agg.counters.get("automata_compared").copied().unwrap_or(0),
        })
    }
    fn check(&self, case: &Case) -> CheckResult {
        if case.modes.is_empty() {
            return Ok(discard("discard_no_mode"));
        }
        let judged = judged_modes(case);
        let is_corpus = case.extra.get("corpus").is_some();
        if !is_corpus {
            if let Err(r) = domain_ok_structural(case) {
                return Ok(discard(r));
            }
            // a token type shared by several patterns is fine for the language equality, but its
            // lookahead would not have one defining pattern
            for m in &case.modes {
                for (i, p) in m.pats.iter().enumerate() {
                    if m.pats[..i].iter().any(|q| q.tt == p.tt && (q.la.is_some() || p.la.is_some())) {
                        return Ok(discard("discard_shared_type_with_lookahead"));
                    }
                }
            }
        }
        let mut st = CaseStats::default();
        // half of the programs are built through the cache (build()), half without it: the two
        // paths use different conversions inside scnr and both compile what users scan with
        let through_cache = case.modes.iter().map(|m| m.pats.len() + m.transitions.len()).sum::<usize>() % 2 == 0;
        st.flag("built_through_cache", through_cache);
        let scanner = match build_guarded(case, through_cache)? {
            Ok(s) => s,
            Err(_) => {
                st.count("build_failed");
                st.inconclusive = true;
                return Ok(st);
            }
        };
        program_features(case, &mut st);
        st.add("modes_skipped_outside_domain", judged.iter().filter(|j| !**j).count() as u64);
        let dump = scanner.verif_dump();
        if dump.len() != case.modes.len() {
            return Err(Failure::new("c02.shape", "number of compiled modes differs from the configuration")
                .exp_obs(case.modes.len(), dump.len()));
        }
        let classes = class_table(&scanner);
        // reference model restricted to the judged modes
        let sub = Case {
            modes: case
                .modes
                .iter()
                .zip(judged.iter())
                .filter(|(_, j)| **j)
                .map(|(m, _)| m.clone())
                .collect(),
            ..Case::default()
        };
        let model = sub.model();
        let pred_sets = preds_bitsets(&model.preds);
        let mut all: Vec<&BitSet> = classes.sets.iter().collect();
        all.extend(pred_sets.iter());
        let atoms = atoms(&all);
        st.add("atoms", atoms.reps.len() as u64);
        let class_off = 0;
        let pred_off = classes.sets.len();
        let mut terms = Terms::new();

        let mut mi_model = 0;
        for (mi, md) in dump.iter().enumerate() {
            let automaton = &md.automaton;
            // structural facts
            let auto = Auto::new(automaton).map_err(|e| Failure::new("c02.shape", e))?;
            if automaton.states == 0 {
                return Err(Failure::new("c02.shape", "automaton without states"));
            }
            if automaton.accepting[0].is_some() {
                return Err(Failure::new(
                    "c02.empty_string",
                    format!("the start state of mode {} is accepting: the empty string would be accepted", mi),
                ));
            }
            let mut autos: Vec<(&scnr::verif::AutomatonDump, String)> = vec![(automaton, format!("mode {}", mi))];
            for la in &automaton.lookaheads {
                autos.push((&la.automaton, format!("lookahead of token type {} in mode {}", la.token_type, mi)));
            }
            for (a, what) in &autos {
                for (_, c, _) in &a.transitions {
                    if *c >= classes.sets.len() {
                        return Err(Failure::new(
                            "c02.class_id",
                            format!("{} refers to class id {} but only {} classes are registered", what, c, classes.sets.len()),
                        ));
                    }
                }
            }
            if !judged[mi] {
                continue;
            }
            let mm = &model.modes[mi_model];
            mi_model += 1;
            // the mode automaton
            let pats: Vec<(usize, TId)> = mm.pats.iter().map(|p| (p.tt, terms.from_m(&p.m))).collect();
            st.count("automata_compared");
            match compare_with_patterns(&auto, class_off, &mut terms, &pats, pred_off, &atoms, PRODUCT_CAP, false) {
                Verdict::Equal { product_states } => {
                    st.add("product_states", product_states as u64);
                }
                Verdict::Capped { product_states } => {
                    st.add("product_states", product_states as u64);
                    st.count("capped");
                    st.inconclusive = true;
                }
                Verdict::Differ(d) => {
                    // confirm on the witness with independent means
                    let sim = simulate(&auto, &scanner, &d.witness);
                    let chars: Vec<char> = d.witness.chars().collect();
                    let matching: std::collections::BTreeSet<usize> = mm
                        .pats
                        .iter()
                        .filter(|p| model::ends(&p.m, &model.preds, &chars, 0).contains(chars.len()))
                        .map(|p| p.tt)
                        .collect();
                    if sim != d.left || matching != d.right {
                        crate::run::harness_error(&format!(
                            "C02 witness {:?} not confirmed: product says {:?} vs {:?}, direct simulation {:?}, matcher {:?}; case {}",
                            d.witness, d.left, d.right, sim, matching, case.to_json()
                        ));
                    }
                    st.count("disagreements_checked");
                    return Err(Failure::new(
                        "c02.language",
                        format!(
                            "mode {}: after reading {:?} the compiled automaton accepts token types {:?} but the patterns matching the string have token types {:?}",
                            mi, d.witness, d.left, d.right
                        ),
                    )
                    .exp_obs(&d.right, &d.left));
                }
            }
            // overlap statistic: some string matched by two patterns
            // (cheap approximation: counted through the product exploration above is not exposed;
            //  use nullable/shape flags plus this direct probe on sampled words)
            // the lookahead automata
            for la in &automaton.lookaheads {
                let Some(p) = mm.pats.iter().find(|p| p.tt == la.token_type) else {
                    return Err(Failure::new(
                        "c02.lookahead",
                        format!("mode {} has a compiled lookahead for token type {} which no pattern has", mi, la.token_type),
                    ));
                };
                let Some((positive, lam)) = &p.la else {
                    return Err(Failure::new(
                        "c02.lookahead",
                        format!("mode {}: pattern with token type {} has no lookahead but a compiled one exists", mi, la.token_type),
                    ));
                };
                if *positive != la.is_positive {
                    return Err(Failure::new("c02.lookahead", "lookahead polarity differs from the configuration")
                        .exp_obs(positive, la.is_positive));
                }
                let la_auto = Auto::new(&la.automaton).map_err(|e| Failure::new("c02.shape", e))?;
                if la.automaton.accepting.first().copied().flatten().is_some() {
                    return Err(Failure::new("c02.empty_string", "the start state of a lookahead automaton is accepting"));
                }
                let t = terms.from_m(lam);
                st.count("automata_compared");
                match compare_with_patterns(&la_auto, class_off, &mut terms, &[(0, t)], pred_off, &atoms, PRODUCT_CAP, true) {
                    Verdict::Equal { product_states } => st.add("product_states", product_states as u64),
                    Verdict::Capped { product_states } => {
                        st.add("product_states", product_states as u64);
                        st.count("capped");
                        st.inconclusive = true;
                    }
                    Verdict::Differ(d) => {
                        let sim = !simulate(&la_auto, &scanner, &d.witness).is_empty();
                        let chars: Vec<char> = d.witness.chars().collect();
                        let matching = model::ends(lam, &model.preds, &chars, 0).contains(chars.len());
                        if sim != !d.left.is_empty() || matching != !d.right.is_empty() {
                            crate::run::harness_error(&format!(
                                "C02 lookahead witness {:?} not confirmed; case {}",
                                d.witness,
                                case.to_json()
                            ));
                        }
                        st.count("disagreements_checked");
                        return Err(Failure::new(
                            "c02.lookahead_language",
                            format!(
                                "mode {}, lookahead of token type {}: on {:?} the compiled lookahead automaton {} but the lookahead pattern {}",
                                mi,
                                la.token_type,
                                d.witness,
                                if sim { "accepts" } else { "does not accept" },
                                if matching { "matches" } else { "does not match" }
                            ),
                        ));
                    }
                }
            }
            let with_la = mm.pats.iter().filter(|p| p.la.is_some()).count();
            if with_la != automaton.lookaheads.len() {
                return Err(Failure::new("c02.lookahead", "number of compiled lookaheads differs from the configuration")
                    .exp_obs(with_la, automaton.lookaheads.len()));
            }
        }
        // non-triviality: overlapping languages (probe by sampled words) or the shape flags
        let overlapping = overlap_probe(&sub, &model);
        st.flag("overlapping_languages", overlapping);
        st.nontrivial = overlapping
            || st.counters.iter().any(|(k, _)| {
                matches!(*k, "nullable_pattern" | "empty_alternative" | "counted_repetition")
            });
        Ok(st)
    }
}

/// Deterministic probe for overlapping pattern languages inside one mode: words sampled with a
/// fixed choice stream from each pattern are matched against the other patterns of the mode.
fn overlap_probe(case: &Case, model: &crate::model::Model) -> bool {
    let bytes: Vec<u8> = (0..64u32).map(|i| (i.wrapping_mul(97) % 251) as u8).collect();
    for (mi, m) in model.modes.iter().enumerate() {
        if m.pats.len() < 2 {
            continue;
        }
        for (pi, p) in m.pats.iter().enumerate() {
            for round in 0..3 {
                let mut d = Dec::new(&bytes[round * 7..]);
                let mut w = String::new();
                let mut fuel = 8;
                gen::sample_word(&mut d, &p.m, &model.preds, &mut w, &mut fuel);
                if w.is_empty() {
                    continue;
                }
                let t = Text::new(&w);
                for (qi, q) in m.pats.iter().enumerate() {
                    if qi != pi
                        && model::ends(&q.m, &model.preds, &t.chars, 0).contains(t.len())
                        && model::ends(&p.m, &model.preds, &t.chars, 0).contains(t.len())
                    {
                        let _ = (mi, case);
                        return true;
                    }
                }
            }
        }
    }
    false
}

// =================================================================================================
// C03

pub struct C03;

impl Check for C03 {
    fn id(&self) -> &'static str {
        "C03"
    }
    fn level(&self) -> &'static str {
        "translation_validation"
    }
    fn rule(&self) -> &'static str {
        "program = the same generated, bounded-exhaustive and corpus programs as C02, built with build_uncached while the feature-gated recorder captures the (automaton before, automaton after) pair of every Minimizer::minimize call (every mode and every lookahead); per pair: after.states <= before.states, and equality of the accepted token-type sets after EVERY string (including the empty one, start state = state 0 on both sides) decided by breadth-first exploration of the product (set of before-states, set of after-states) over the alphabet atoms of the scanner's class table; non-trivial = pair where minimization merged something (after < before); pairs with >= 2 accepting token types counted separately"
    }
    fn assumptions(&self) -> Vec<String> {
        vec![
            "the recorder copies the automaton at the top of Minimizer::minimize and in front of the tail expression of create_from_partition".into(),
        ]
    }
    fn cases(&self, thorough: bool) -> usize {
        if thorough {
            80_000
        } else {
            4_000
        }
    }
    fn fixed_cases(&self, _thorough: bool) -> Vec<Case> {
        let mut v = corpus_cases();
        v.extend(tiny_programs());
        v
    }
    fn generate(&self, d: &mut Dec, thorough: bool) -> Case {
        gen_program(d, thorough)
    }
    fn extra_coverage(&self, agg: &Aggregate) -> Value {
        json!({
            "programs": agg.counters.get("pairs").copied().unwrap_or(0),
            "disagreements_checked": agg.counters.get("disagreements_checked").copied().unwrap_or(0),
            "product_states": agg.counters.get("product_states").copied().unwrap_or(0),
            "pairs_where_states_were_merged": agg.counters.get("pairs_merged").copied().unwrap_or(0),
        })
    }
    fn check(&self, case: &Case) -> CheckResult {
        if case.modes.is_empty() {
            return Ok(discard("discard_no_mode"));
        }
        if case.extra.get("corpus").is_none() {
            if let Err(r) = domain_ok_structural(case) {
                return Ok(discard(r));
            }
        }
        let mut st = CaseStats::default();
        let built = guard(|| {
            scnr::verif::record_minimizer(true);
            let r = case.build_uncached();
            let log = scnr::verif::take_minimizer_log();
            scnr::verif::record_minimizer(false);
            (r, log)
        });
        let (scanner, log) = match built {
            Err(p) => {
                scnr::verif::record_minimizer(false);
                return Err(Failure::panic("c03.build_panic", "building panicked", p));
            }
            Ok((Err(_), _)) => {
                st.count("build_failed");
                st.inconclusive = true;
                return Ok(st);
            }
            Ok((Ok(s), log)) => (s, log),
        };
        program_features(case, &mut st);
        let expected_pairs: usize = case
            .modes
            .iter()
            .map(|m| 1 + m.pats.iter().filter(|p| p.la.is_some()).count())
            .sum();
        if log.len() != expected_pairs {
            // not a property violation by itself; the hook may have been moved
            st.count("unexpected_number_of_minimizer_calls");
        }
        let classes = class_table(&scanner);
        let all: Vec<&BitSet> = classes.sets.iter().collect();
        let atoms = atoms(&all);
        st.add("atoms", atoms.reps.len() as u64);
        for (i, (before, after)) in log.iter().enumerate() {
            st.count("pairs");
            if after.states > before.states {
                return Err(Failure::new(
                    "c03.size",
                    format!("minimizer call {}: the minimized automaton has more states than before", i),
                )
                .exp_obs(before.states, after.states));
            }
            if after.states < before.states {
                st.count("pairs_merged");
                st.nontrivial = true;
            }
            let mut tts: Vec<usize> = before.accepting.iter().flatten().copied().collect();
            tts.sort_unstable();
            tts.dedup();
            st.flag("pairs_with_two_token_types", tts.len() >= 2);
            for a in [before, after] {
                for (_, c, _) in &a.transitions {
                    if *c >= classes.sets.len() {
                        return Err(Failure::new("c03.class_id", "automaton refers to an unregistered class id"));
                    }
                }
            }
            let a = Auto::new(before).map_err(|e| Failure::new("c03.shape", e))?;
            let b = Auto::new(after).map_err(|e| Failure::new("c03.shape", e))?;
            if after.states == 0 && before.states > 0 {
                return Err(Failure::new("c03.shape", "minimized automaton has no states"));
            }
            match compare_automata(&a, 0, &b, 0, &atoms, PRODUCT_CAP, false) {
                Verdict::Equal { product_states } => st.add("product_states", product_states as u64),
                Verdict::Capped { product_states } => {
                    st.add("product_states", product_states as u64);
                    st.count("capped");
                    st.inconclusive = true;
                }
                Verdict::Differ(d) => {
                    let (sa, sb) = (simulate(&a, &scanner, &d.witness), simulate(&b, &scanner, &d.witness));
                    if sa != d.left || sb != d.right {
                        crate::run::harness_error(&format!(
                            "C03 witness {:?} not confirmed by direct simulation; case {}",
                            d.witness,
                            case.to_json()
                        ));
                    }
                    st.count("disagreements_checked");
                    return Err(Failure::new(
                        "c03.language",
                        format!(
                            "minimizer call {}: on {:?} the automaton before minimization accepts token types {:?}, the minimized one {:?}",
                            i, d.witness, d.left, d.right
                        ),
                    )
                    .exp_obs(&d.left, &d.right));
                }
            }
        }
        Ok(st)
    }
}
