//! C01 (longest match / first listed / skip), C04 (lookahead gates, never consumed),
//! C05 (trailing-context choice), C07 (well-formed streams, progress, no panics).

use super::common::*;
use crate::case::*;
use crate::dec::Dec;
use crate::gen::{self, GenParams};
use crate::model::*;
use crate::run::{guard, CaseStats, Check, CheckResult, Failure};
use crate::rx::{self, Rx};
use scnr::ScannerModeSwitcher;

// =================================================================================================
// C01

pub struct C01;

pub fn tiny_exhaustive_cases() -> Vec<Case> {
    // all pattern pairs over a tiny grammar (size <= 3) x all inputs over {a,b,c} up to length 5
    use crate::rx::LitForm::Verbatim as V;
    let atoms = vec![
        Rx::Lit('a', V),
        Rx::Lit('b', V),
        Rx::Class(rx::Class::Bracket(rx::Bracket {
            negated: false,
            set: rx::ClassSet::Items(vec![
                rx::ClassItem::Lit('a', V),
                rx::ClassItem::Lit('b', V),
            ]),
        })),
    ];
    let mut exprs: Vec<Rx> = atoms.clone();
    for a in &atoms {
        exprs.push(Rx::Repeat(Box::new(a.clone()), 0, Some(1)));
        exprs.push(Rx::Repeat(Box::new(a.clone()), 0, None));
        exprs.push(Rx::Alt(vec![Rx::Empty, a.clone()]));
        exprs.push(Rx::Alt(vec![a.clone(), Rx::Empty]));
        for b in &atoms {
            exprs.push(Rx::Concat(vec![a.clone(), b.clone()]));
        }
    }
    // size-3 shapes with an empty alternative or a star in front of / behind an atom
    for a in &atoms[..2] {
        for b in &atoms[..2] {
            exprs.push(Rx::Concat(vec![
                Rx::Group(
                    Box::new(Rx::Alt(vec![Rx::Empty, a.clone()])),
                    rx::GroupKind::Capture,
                ),
                b.clone(),
            ]));
            exprs.push(Rx::Concat(vec![
                Rx::Repeat(Box::new(a.clone()), 0, None),
                b.clone(),
            ]));
            exprs.push(Rx::Concat(vec![
                a.clone(),
                Rx::Repeat(Box::new(b.clone()), 0, Some(1)),
            ]));
        }
    }
    let mut inputs = vec![String::new()];
    let mut frontier = vec![String::new()];
    for _ in 0..5 {
        let mut next = vec![];
        for s in &frontier {
            for c in ['a', 'b', 'c'] {
                let mut t = s.clone();
                t.push(c);
                next.push(t);
            }
        }
        inputs.extend(next.iter().cloned());
        frontier = next;
    }
    let mut cases = Vec::new();
    for (i, p) in exprs.iter().enumerate() {
        for (j, q) in exprs.iter().enumerate() {
            cases.push(Case {
                modes: vec![ModeSpec {
                    name: "INITIAL".into(),
                    pats: vec![
                        PatSpec {
                            rx: p.clone(),
                            tt: 0,
                            la: None,
                        },
                        PatSpec {
                            rx: q.clone(),
                            tt: 1,
                            la: None,
                        },
                    ],
                    transitions: vec![],
                }],
                add_patterns: (i + j) % 2 == 0,
                inputs: inputs.clone(),
                ..Case::default()
            });
        }
    }
    cases
}

impl Check for C01 {
    fn id(&self) -> &'static str {
        "C01"
    }
    fn rule(&self) -> &'static str {
        "case = one lookahead-free mode (1-6 generated patterns, half via add_patterns) x 8 inputs sampled from the pattern languages (+prefixes, near misses, foreign and multi-byte characters), plus the bounded-exhaustive set of all pattern pairs over a tiny grammar x all inputs over {a,b,c} up to length 5, plus the string of all 1 112 064 scalar values in 272 slices under two class-free pattern lists (run first), plus 14 cases in which one automaton state is visited twice exactly 2^15 / 2^16 (+-2) scan steps apart (inside one token of that length, and across that many one-character tokens); oracle = independent set-based matcher + longest-match/first-listed tokenizer, token lists compared for equality; non-trivial = some scan position where two different patterns both have a candidate (competition); distinct = hash of the decoded case"
    }
    fn cases(&self, thorough: bool) -> usize {
        if thorough {
            4_000_000
        } else {
            40_000
        }
    }
    fn fixed_cases(&self, _thorough: bool) -> Vec<Case> {
        let mut v = tiny_exhaustive_cases();
        // every scalar value once, in ascending order, as one input: spans and winners for every
        // code point (the patterns have no named class, so that the reference needs no measured
        // base set)
        // two visits of one automaton state exactly 2^15 / 2^16 (+-2) scan steps apart: inside one
        // long token, and across tens of thousands of one-character tokens of one iterator
        let mode = |pats: &[(&str, usize)]| ModeSpec {
            name: "INITIAL".into(),
            pats: pats.iter().map(|(s, tt)| PatSpec { rx: rx::parse_supported(s), tt: *tt, la: None }).collect(),
            transitions: vec![],
        };
        for k in [32_766usize, 32_767, 65_533, 65_534, 65_535, 65_536, 65_537] {
            v.push(Case {
                modes: vec![mode(&[("(?:xy+)+", 0), ("z", 1)])],
                inputs: vec![format!("x{}xyz", "y".repeat(k)), format!("xy{}xyyz", "x".repeat(0)) + &"xy".repeat(k / 2)],
                ..Case::default()
            });
            v.push(Case {
                modes: vec![mode(&[("x", 0), ("ab", 1), ("a", 2)])],
                inputs: vec![format!("ab{}ab", "x".repeat(k)), format!("ab{}a", "x".repeat(k))],
                ..Case::default()
            });
        }
        v.extend(scalar_slice_cases(
            &[
                &["[^a]", "a"],
                &["[^b][\\u{80}-\\u{10FFFF}]?", "b", "[a-z]+"],
            ],
            4096,
        ));
        v
    }
    fn generate(&self, d: &mut Dec, thorough: bool) -> Case {
        let p = GenParams::for_tier(thorough);
        let add_patterns = d.chance(64);
        let large = d.chance(p.large_per_256);
        let mut mode = if large {
            gen::gen_large_mode(d, &p, "INITIAL")
        } else {
            gen::gen_mode(d, &p, "INITIAL")
        };
        if add_patterns {
            for (i, q) in mode.pats.iter_mut().enumerate() {
                q.tt = i;
            }
        }
        let mut case = Case {
            modes: vec![mode],
            add_patterns,
            ..Case::default()
        };
        let model = case.model();
        if large {
            if d.chance(64) && !add_patterns {
                let (rx, input) = gen::gen_long_token(d);
                let mut tt = 41;
                while case.modes[0].pats.iter().any(|p| p.tt == tt) {
                    tt += 1;
                }
                case.modes[0].pats.insert(0, PatSpec { rx, tt, la: None });
                case.inputs.push(input);
                return case;
            }
            for _ in 0..2 {
                case.inputs.push(gen::gen_long_input(d, &model, 40, 300));
            }
        } else {
            for _ in 0..8 {
                case.inputs.push(gen::gen_input(d, &model, p.max_input_chars));
            }
        }
        case
    }
    fn check(&self, case: &Case) -> CheckResult {
        if let Err(r) = domain_ok(case) {
            return Ok(discard(r));
        }
        if case.modes.len() != 1 || case.modes[0].pats.iter().any(|p| p.la.is_some()) {
            return Ok(discard("discard_shape"));
        }
        let mut st = CaseStats::default();
        let scanner = match build_guarded(case, false)? {
            Ok(s) => s,
            Err(_) => {
                st.count("build_failed");
                st.inconclusive = true;
                return Ok(st);
            }
        };
        let model = case.model();
        st.flag("add_patterns", case.add_patterns);
        st.flag(
            "nullable_pattern",
            case.modes[0].pats.iter().any(|p| rx::nullable(&p.rx)),
        );
        st.flag(
            "empty_alternative",
            case.modes[0].pats.iter().any(|p| rx::has_empty_alternative(&p.rx)),
        );
        st.flag("large_token_type", case.modes[0].pats.iter().any(|p| p.tt > 65_535));
        st.flag("more_than_64_patterns", case.modes[0].pats.len() > 64);
        st.flag("more_than_64_classes", scanner.verif_class_count() > 64);
        for input in &case.inputs {
            let text = Text::new(input);
            // reference
            let mut expected = Vec::new();
            let mut pos = 0;
            let n = text.len();
            while pos < n {
                let (cands, info) = model.candidates(0, &text.chars, pos);
                if info.patterns_with_candidate >= 2 {
                    st.nontrivial = true;
                    st.count("competition_positions");
                    let maxe = cands.iter().map(|c| c.end).max().unwrap();
                    let at_max: Vec<usize> =
                        cands.iter().filter(|c| c.end == maxe).map(|c| c.pat).collect();
                    if at_max.len() >= 2 {
                        st.count("tie_at_equal_length");
                    }
                    let first = cands.iter().map(|c| c.pat).min().unwrap();
                    if !at_max.contains(&first) {
                        st.count("longer_beats_earlier");
                    }
                }
                let w = Model::winners(&cands);
                if let Some(c) = w.first() {
                    expected.push(Tok {
                        tt: c.tt,
                        start: text.offs[pos],
                        end: text.offs[c.end],
                    });
                    pos = c.end;
                } else {
                    st.count("skipped_characters");
                    pos += 1;
                }
            }
            st.flag("multibyte_input", input.len() != n);
            let mut it = scanner.find_iter(input);
            let (got, ended) = match collect_bounded(&mut it, n) {
                Ok(x) => x,
                Err(p) => {
                    return Err(Failure::panic(
                        "c01.panic",
                        format!("scanning {:?} panicked", input),
                        p,
                    ))
                }
            };
            if got != expected || !ended {
                if expected.len() > 4096 {
                    // huge fixed input: report the neighbourhood of the first difference only
                    let i = expected
                        .iter()
                        .zip(got.iter())
                        .position(|(a, b)| a != b)
                        .unwrap_or(expected.len().min(got.len()));
                    let win = |v: &[Tok]| v[i.saturating_sub(1).min(v.len())..(i + 3).min(v.len())].to_vec();
                    return Err(Failure::new(
                        "c01.stream",
                        format!(
                            "token stream on an input of {} characters differs from longest-match/first-listed tokenization at token #{} (ended: {})",
                            n, i, ended
                        ),
                    )
                    .exp_obs(win(&expected), win(&got)));
                }
                return Err(Failure::new(
                    "c01.stream",
                    format!(
                        "token stream on {:?} differs from longest-match/first-listed tokenization",
                        input
                    ),
                )
                .exp_obs(&expected, &got));
            }
        }
        Ok(st)
    }
}

/// Fixed cases whose inputs together are the string of all scalar values in ascending order, cut
/// into slices of `slice_chars` characters (one case per slice and pattern list).
pub fn scalar_slice_cases(pattern_lists: &[&[&str]], slice_chars: usize) -> Vec<Case> {
    let all: Vec<char> = crate::sets::all_scalars().chars().collect();
    let mut out = Vec::new();
    for v in pattern_lists {
        let mode = ModeSpec {
            name: "INITIAL".into(),
            pats: v
                .iter()
                .enumerate()
                .map(|(i, s)| PatSpec {
                    rx: rx::parse_supported(s),
                    tt: i,
                    la: None,
                })
                .collect(),
            transitions: vec![],
        };
        for sl in all.chunks(slice_chars) {
            out.push(Case {
                modes: vec![mode.clone()],
                inputs: vec![sl.iter().collect()],
                ..Case::default()
            });
        }
    }
    out
}

// =================================================================================================
// C04 / C05: the same cases, different oracles

pub struct C04;
pub struct C05;

/// A token, a long run of filler (around the 4096 / 8192 byte marks) and a decider: the lookahead
/// has to read the whole run.
fn gen_long_gap_case(d: &mut Dec) -> Case {
    use crate::rx::LitForm::Verbatim as V;
    let filler = *d.pick(&[' ', '_', 'é']);
    let decider = *d.pick(&[';', '(', 'x']);
    let la = Rx::Concat(vec![
        Rx::Repeat(Box::new(Rx::Lit(filler, V)), 0, None),
        Rx::Lit(decider, V),
    ]);
    let word = Rx::Repeat(Box::new(Rx::Lit('a', V)), 1, None);
    let mut pats = vec![
        PatSpec {
            rx: word.clone(),
            tt: 1,
            la: Some(LaSpec {
                positive: d.bool(),
                rx: la,
            }),
        },
        PatSpec {
            rx: word,
            tt: 2,
            la: None,
        },
    ];
    if d.bool() {
        pats.swap(0, 1);
    }
    let k = match d.below(5) {
        0 => 4090 + d.below(12),
        1 => 8186 + d.below(12),
        2 => 2040 + d.below(12),
        3 => 100 + d.below(9000),
        _ => 4096 / filler.len_utf8() - 3 + d.below(6),
    };
    let mut input = String::from("aa");
    for _ in 0..k {
        input.push(filler);
    }
    input.push(if d.chance(180) { decider } else { 'q' });
    input.push_str("aa");
    Case {
        modes: vec![ModeSpec {
            name: "INITIAL".into(),
            pats,
            transitions: vec![],
        }],
        inputs: vec![input],
        ..Case::default()
    }
}

/// A lookahead whose simulation keeps many states active at once (`[ab]*a[ab]{n}c`, n = 15 .. 70:
/// the subset construction of this expression has 2^n states) and inputs that decide it on the
/// n-th character from the end.
fn gen_wide_lookahead_case(d: &mut Dec) -> Case {
    use crate::rx::LitForm::Verbatim as V;
    let n = *d.pick(&[15u32, 16, 17, 31, 32, 33, 34, 40, 63, 64, 65, 70]);
    let ab = || {
        Rx::Class(crate::rx::Class::Bracket(crate::rx::Bracket {
            negated: false,
            set: crate::rx::ClassSet::Items(vec![
                crate::rx::ClassItem::Lit('a', V),
                crate::rx::ClassItem::Lit('b', V),
            ]),
        }))
    };
    let la = Rx::Concat(vec![
        Rx::Repeat(Box::new(ab()), 0, None),
        Rx::Lit('a', V),
        Rx::Repeat(Box::new(ab()), n, Some(n)),
        Rx::Lit('c', V),
    ]);
    let mut pats = vec![
        PatSpec { rx: Rx::Lit('x', V), tt: 1, la: Some(LaSpec { positive: d.bool(), rx: la }) },
        PatSpec { rx: Rx::Lit('x', V), tt: 2, la: None },
        PatSpec { rx: Rx::Repeat(Box::new(ab()), 1, None), tt: 3, la: None },
    ];
    if d.bool() {
        pats.swap(0, 1);
    }
    let mut input = String::new();
    for _ in 0..1 + d.below(3) {
        input.push('x');
        let len = n as usize + 1 + d.below(6);
        let decisive = len - 1 - n as usize; // index whose letter decides the lookahead
        for i in 0..len {
            input.push(if i == decisive { if d.chance(200) { 'a' } else { 'b' } } else if d.chance(200) { 'a' } else { 'b' });
        }
        input.push(if d.chance(220) { 'c' } else { 'q' });
    }
    Case {
        modes: vec![ModeSpec { name: "INITIAL".into(), pats, transitions: vec![] }],
        inputs: vec![input],
        ..Case::default()
    }
}

fn gen_lookahead_case(d: &mut Dec, thorough: bool, min_pats: usize) -> Case {
    let p = GenParams::for_tier(thorough).with_lookaheads(110);
    if d.chance(1) {
        return gen_long_gap_case(d);
    }
    if d.chance(2) {
        return gen_wide_lookahead_case(d);
    }
    if d.chance(p.large_per_256) {
        let mode = gen::gen_large_mode(d, &p.clone().with_lookaheads(90), "INITIAL");
        let mut case = Case {
            modes: vec![mode],
            ..Case::default()
        };
        let model = case.model();
        case.inputs.push(gen::gen_long_input(d, &model, 30, 200));
        return case;
    }
    let mut mode = gen::gen_mode(d, &p, "INITIAL");
    while mode.pats.len() < min_pats {
        let extra = gen::gen_mode(d, &p, "X");
        for mut q in extra.pats {
            while mode.pats.iter().any(|r| r.tt == q.tt) {
                q.tt += 1;
            }
            mode.pats.push(q);
            if mode.pats.len() >= min_pats {
                break;
            }
        }
    }
    if mode.pats.iter().all(|q| q.la.is_none()) {
        // at least one lookahead
        let i = d.below(mode.pats.len());
        mode.pats[i].la = Some(LaSpec {
            positive: d.bool(),
            rx: gen::gen_lookahead_rx(d, &p),
        });
    }
    // bias towards several satisfied candidates: sometimes make a pattern a prefix-extension of
    // another one
    if mode.pats.len() >= 2 && d.chance(64) {
        let i = d.below(mode.pats.len());
        let j = (i + 1 + d.below(mode.pats.len() - 1)) % mode.pats.len();
        let ext = gen::gen_pattern_rx(d, &GenParams { max_depth: 2, ..p.clone() });
        mode.pats[j].rx = Rx::Concat(vec![mode.pats[i].rx.clone(), ext]);
    }
    let mut case = Case {
        modes: vec![mode],
        ..Case::default()
    };
    if d.chance(40) {
        // a sibling mode in front: the same patterns and token types, other lookaheads; the scan
        // runs in the second mode (entered with set_mode) - compiled data shared between modes
        // must not carry lookaheads over
        let mut sib = case.modes[0].clone();
        sib.name = "SIBLING".into();
        match d.below(3) {
            0 => sib.pats.iter_mut().for_each(|q| q.la = None),
            1 => {
                for q in sib.pats.iter_mut() {
                    if q.la.is_none() {
                        q.la = Some(LaSpec {
                            positive: d.bool(),
                            rx: gen::gen_lookahead_rx(d, &p),
                        });
                    } else {
                        q.la = None;
                    }
                }
            }
            _ => sib.pats.iter_mut().for_each(|q| {
                if let Some(la) = q.la.as_mut() {
                    la.positive = !la.positive;
                }
            }),
        }
        case.modes.insert(0, sib);
        case.ops = vec![Op::SetMode { m: 1 }];
    }
    let scan_mode = case.modes.len() - 1;
    let model = case.model();
    let input = {
        // words of the mode that is scanned
        let sub = Model {
            preds: model.preds.clone(),
            modes: vec![model.modes[scan_mode].clone()],
        };
        gen::gen_input(d, &sub, p.max_input_chars)
    };
    // start offset: 0 in half of the cases, else a random character boundary
    if d.bool() {
        let text = Text::new(&input);
        let ci = d.below(text.len() + 1);
        case.start_offset = Some(text.offs[ci]);
        if d.bool() {
            case.offset_after = Some(d.below(4));
        }
    }
    case.inputs.push(input);
    case
}

/// Runs the implementation the way the case prescribes and returns the tokens that follow the
/// (re)start at `start_offset`.
fn scan_from_offset(
    scanner: &scnr::Scanner,
    case: &Case,
    text: &Text,
) -> Result<Vec<Tok>, String> {
    let input = case.input();
    guard(|| {
        let mut it = scanner.find_iter(input);
        if let Some(Op::SetMode { m }) = case.ops.first() {
            it.set_mode(*m);
        }
        match (case.start_offset, case.offset_after) {
            (None, _) => {}
            (Some(o), None) => it = it.with_offset(o),
            (Some(o), Some(k)) => {
                for _ in 0..k {
                    if it.next().is_none() {
                        break;
                    }
                }
                it.set_offset(o);
            }
        }
        let mut out = Vec::new();
        for _ in 0..text.len() + 4 {
            match it.next() {
                Some(m) => out.push(Tok::of(&m)),
                None => break,
            }
        }
        out
    })
}

fn lookahead_shape_ok(case: &Case) -> bool {
    let ops_ok = match case.ops.as_slice() {
        [] => case.modes.len() == 1,
        [Op::SetMode { m }] => *m < case.modes.len() && *m == case.modes.len() - 1,
        _ => false,
    };
    (1..=2).contains(&case.modes.len())
        && ops_ok
        && case.inputs.len() == 1
        && !case.add_patterns
        && case.modes.iter().all(|m| m.transitions.is_empty())
}

/// the mode the lookahead cases scan in
fn scan_mode_of(case: &Case) -> usize {
    match case.ops.first() {
        Some(Op::SetMode { m }) => *m,
        _ => 0,
    }
}

fn start_char(case: &Case, text: &Text) -> Option<usize> {
    match case.start_offset {
        None => Some(0),
        Some(o) => text.char_index(o.min(text.byte_len())),
    }
}

impl Check for C04 {
    fn id(&self) -> &'static str {
        "C04"
    }
    fn rule(&self) -> &'static str {
        "case = one mode mixing patterns without / with positive / with negative lookahead, one input biased to (pattern word)(lookahead word | near miss | end of input), scan start 0 or a random character boundary applied by with_offset or by set_offset after some tokens; oracle = reference candidate set (pattern matches and lookahead condition holds) at every scan position, walked along the implementation's own choices: soundness (every reported token is a candidate, lookahead text not included and rescanned) and completeness (a token starts wherever the candidate set is non-empty); non-trivial = some position where a pattern matched but its lookahead condition failed, or a lookahead decided at end of input, or a non-zero start offset"
    }
    fn cases(&self, thorough: bool) -> usize {
        if thorough {
            10_000_000
        } else {
            100_000
        }
    }
    fn generate(&self, d: &mut Dec, thorough: bool) -> Case {
        gen_lookahead_case(d, thorough, 1)
    }
    fn check(&self, case: &Case) -> CheckResult {
        check_lookahead(case, false)
    }
}

impl Check for C05 {
    fn id(&self) -> &'static str {
        "C05"
    }
    fn rule(&self) -> &'static str {
        "case = one mode with >= 2 patterns of which >= 1 has a lookahead (any polarity, any priority order), one input biased to produce several satisfied candidates; oracle = at every scan position the reported token must be an acceptable winner of the reference tokenizer: maximal own length + longest positive-lookahead match, ties to the pattern listed first, span and token type from the same candidate; a panic is a violation; non-trivial = a position with >= 2 satisfied candidates of different extents, or a satisfied and a failed candidate, or an equal-extent tie between different patterns"
    }
    fn cases(&self, thorough: bool) -> usize {
        if thorough {
            10_000_000
        } else {
            100_000
        }
    }
    fn generate(&self, d: &mut Dec, thorough: bool) -> Case {
        gen_lookahead_case(d, thorough, 2)
    }
    fn check(&self, case: &Case) -> CheckResult {
        check_lookahead(case, true)
    }
}

fn check_lookahead(case: &Case, strict_choice: bool) -> CheckResult {
    let pfx = if strict_choice { "c05" } else { "c04" };
    if let Err(r) = domain_ok(case) {
        return Ok(discard(r));
    }
    if !lookahead_shape_ok(case) {
        return Ok(discard("discard_shape"));
    }
    let sm = scan_mode_of(case);
    if strict_choice
        && (case.modes[sm].pats.len() < 2
            || case.modes.iter().all(|m| m.pats.iter().all(|p| p.la.is_none())))
    {
        return Ok(discard("discard_shape"));
    }
    let text = Text::new(case.input());
    let Some(start) = start_char(case, &text) else {
        return Ok(discard("discard_offset_not_on_boundary"));
    };
    let mut st = CaseStats::default();
    let scanner = match build_guarded(case, false)? {
        Ok(s) => s,
        Err(_) => {
            st.count("build_failed");
            st.inconclusive = true;
            return Ok(st);
        }
    };
    let model = case.model();
    let got = match scan_from_offset(&scanner, case, &text) {
        Ok(g) => g,
        Err(p) => {
            return Err(Failure::panic(
                if strict_choice { "c05.panic" } else { "c04.panic" },
                format!("scanning {:?} panicked", case.input()),
                p,
            ))
        }
    };
    st.flag("nonzero_start_offset", start > 0);
    st.flag("more_than_64_patterns", case.modes[sm].pats.len() > 64);
    st.flag("input_longer_than_4096_bytes", case.input().len() > 4096);
    st.flag("scanned_in_a_sibling_mode", case.modes.len() == 2);
    st.flag("offset_by_set_offset", case.offset_after.is_some() && case.start_offset.is_some());
    if start > 0 {
        st.nontrivial = !strict_choice;
    }
    let n = text.len();
    let mut pos = start;
    let mut idx = 0;
    loop {
        // next position with a non-empty candidate set
        let mut found = None;
        while pos < n {
            let (cands, info) = model.candidates(sm, &text.chars, pos);
            note_position(&mut st, &cands, &info, strict_choice);
            if !cands.is_empty() {
                found = Some(cands);
                break;
            }
            pos += 1;
        }
        match (found, got.get(idx)) {
            (None, None) => break,
            (None, Some(t)) => {
                return Err(Failure::new(
                    &format!("{}.unsound", pfx),
                    format!(
                        "token {:?} reported although no pattern has a satisfied candidate from byte {} on",
                        t,
                        text.offs[pos.min(n)]
                    ),
                )
                .exp_obs("end of stream", t));
            }
            (Some(cands), None) => {
                return Err(Failure::new(
                    &format!("{}.incomplete", pfx),
                    format!(
                        "no token reported at byte {} although candidates exist",
                        text.offs[pos]
                    ),
                )
                .exp_obs(&cands, "end of stream"));
            }
            (Some(cands), Some(t)) => {
                if t.start != text.offs[pos] {
                    let kind = if t.start > text.offs[pos] {
                        format!("{}.incomplete", pfx)
                    } else {
                        format!("{}.unsound", pfx)
                    };
                    return Err(Failure::new(
                        &kind,
                        format!(
                            "next token should start at byte {} (first position with a satisfied candidate)",
                            text.offs[pos]
                        ),
                    )
                    .exp_obs(&cands, t));
                }
                let pool = if strict_choice {
                    Model::winners(&cands)
                } else {
                    cands.clone()
                };
                let ok = pool
                    .iter()
                    .any(|c| c.tt == t.tt && text.offs[c.end] == t.end);
                if !ok {
                    let kind = if strict_choice {
                        "c05.choice"
                    } else {
                        "c04.unsound"
                    };
                    return Err(Failure::new(
                        kind,
                        format!(
                            "token at byte {} is not {}",
                            t.start,
                            if strict_choice {
                                "an acceptable winner under the trailing-context rule"
                            } else {
                                "a (pattern, end) pair whose pattern matches and whose lookahead condition holds"
                            }
                        ),
                    )
                    .exp_obs(&pool, t));
                }
                st.count("tokens");
                match text.char_index(t.end) {
                    Some(ci) if ci > pos => pos = ci,
                    _ => {
                        return Err(Failure::new(
                            &format!("{}.unsound", pfx),
                            "token end is not a character boundary behind its start",
                        )
                        .exp_obs(&pool, t))
                    }
                }
                idx += 1;
            }
        }
    }
    Ok(st)
}

fn note_position(st: &mut CaseStats, cands: &[Cand], info: &PosInfo, strict_choice: bool) {
    if info.failed_lookahead > 0 {
        st.count("positions_with_failed_lookahead");
    }
    if info.lookahead_at_eoi {
        st.count("lookahead_decided_at_end_of_input");
    }
    if !strict_choice {
        if info.failed_lookahead > 0 || info.lookahead_at_eoi {
            st.nontrivial = true;
        }
    } else {
        let mut extents: Vec<usize> = cands.iter().map(|c| c.extent).collect();
        extents.sort_unstable();
        extents.dedup();
        if extents.len() >= 2 {
            st.count("positions_with_different_extents");
            st.nontrivial = true;
        }
        if !cands.is_empty() && info.failed_lookahead > 0 {
            st.count("positions_with_satisfied_and_failed");
            st.nontrivial = true;
        }
        if let Some(mx) = extents.last() {
            let mut pats: Vec<usize> = cands
                .iter()
                .filter(|c| c.extent == *mx)
                .map(|c| c.pat)
                .collect();
            pats.sort_unstable();
            pats.dedup();
            if pats.len() >= 2 {
                st.count("equal_extent_ties");
                st.nontrivial = true;
            }
        }
        if cands.iter().any(|c| c.extent > c.end) {
            st.count("positions_with_positive_lookahead_extent");
        }
    }
}

// =================================================================================================
// C07

pub struct C07;

/// C07 through the WithPositions adapter: next / set_mode / set_offset histories.
fn check_c07_with_positions(case: &Case) -> CheckResult {
    use scnr::{MatchExtIterator, PositionProvider};
    let input = case.input();
    for op in &case.ops {
        match op {
            Op::Next => {}
            Op::SetMode { m } if *m < case.modes.len() => {}
            Op::SetOffset { o } if *o > input.len() || input.is_char_boundary(*o) => {}
            _ => return Ok(discard("discard_op")),
        }
    }
    let mut st = CaseStats::default();
    let scanner = match build_guarded(case, false) {
        Err(mut f) => {
            f.kind = "c07.build_panic".into();
            return Err(f);
        }
        Ok(Err(_)) => {
            st.count("build_failed");
            st.inconclusive = true;
            return Ok(st);
        }
        Ok(Ok(s)) => s,
    };
    let text = Text::new(input);
    let n = text.len();
    let r = guard(|| -> Result<usize, Failure> {
        let mut it = scanner.find_iter(input).with_positions();
        let mut prev_end = 0usize;
        let mut ended = false;
        let mut tokens = 0usize;
        let mut base = 0usize;
        let handle = |m: Option<scnr::MatchExt>, prev_end: &mut usize, ended: &mut bool, tokens: &mut usize, base: usize| -> Result<(), Failure> {
            match m {
                None => *ended = true,
                Some(m) => {
                    let (s, e) = (m.start(), m.end());
                    if *ended {
                        return Err(Failure::new("c07.none_not_sticky", "a token was returned after None").exp_obs("None", m));
                    }
                    if e <= s || e > input.len() || !input.is_char_boundary(s) || !input.is_char_boundary(e) || s < *prev_end {
                        return Err(Failure::new("c07.span", "malformed span from the WithPositions adapter")
                            .exp_obs(format!("previous end {}", prev_end), m));
                    }
                    if m.start_position().line == 0 || m.start_position().column == 0 || m.end_position().line == 0 || m.end_position().column == 0 {
                        return Err(Failure::new("c07.span", "position with line or column 0").exp_obs("1-based", m));
                    }
                    *prev_end = e;
                    *tokens += 1;
                    if *tokens > n - base {
                        return Err(Failure::new("c07.too_many_tokens", "more tokens than input characters since the last reset"));
                    }
                }
            }
            Ok(())
        };
        let mut total = 0;
        for op in &case.ops {
            match op {
                Op::Next => {
                    let m = it.next();
                    handle(m, &mut prev_end, &mut ended, &mut tokens, base)?;
                }
                Op::SetMode { m } => it.set_mode(*m),
                Op::SetOffset { o } => {
                    it.set_offset(*o);
                    let oo = (*o).min(input.len());
                    prev_end = oo;
                    ended = false;
                    total += tokens;
                    tokens = 0;
                    base = text.char_index(oo).unwrap_or(0);
                }
                _ => {}
            }
        }
        let mut calls = 0;
        while !ended {
            if calls > n + 4 {
                return Err(Failure::new("c07.no_progress", "iterator did not end after #chars+4 calls of next()"));
            }
            let m = it.next();
            handle(m, &mut prev_end, &mut ended, &mut tokens, base)?;
            calls += 1;
        }
        for _ in 0..3 {
            let m = it.next();
            handle(m, &mut prev_end, &mut ended, &mut tokens, base)?;
        }
        Ok(total + tokens)
    });
    match r {
        Err(p) => Err(Failure::panic("c07.panic", format!("scanning {:?} through with_positions() panicked", input.chars().take(60).collect::<String>()), p)),
        Ok(Err(f)) => Err(f),
        Ok(Ok(t)) => {
            st.add("tokens", t as u64);
            st.count("driver_with_positions");
            st.nontrivial = input.len() != n && t > 0;
            Ok(st)
        }
    }
}

impl Check for C07 {
    fn id(&self) -> &'static str {
        "C07"
    }
    fn rule(&self) -> &'static str {
        "case = any valid configuration (1-4 modes with sorted transitions, lookaheads of both polarities, nullable patterns) x one input of arbitrary scalar values (alphabet, boundary code points of the 1/2/3/4-byte ranges, uniform scalars) x an iterator (FindMatches, or the WithPositions adapter in a quarter of the cases) x a history of next / peek_n / set_mode / set_offset / with_offset (any boundary, len, beyond) / peek_n+advance_to; oracle = invariant: every span non-empty, within the input, on character boundaries, starting at or after the previous end (after a reset: at or after the reset offset); at most one token per character since the last reset; None is sticky; no panic in build or scan; next() called at most #chars+4 times so a non-advancing iterator is caught; non-trivial = input with a >= 2-byte character and at least one token and one skipped character"
    }
    fn cases(&self, thorough: bool) -> usize {
        if thorough {
            6_000_000
        } else {
            100_000
        }
    }
    fn hang_is_violation(&self) -> bool {
        true
    }
    fn fixed_cases(&self, _thorough: bool) -> Vec<Case> {
        // every scalar value once, in ascending order, as one input (4.4 MB): no code point may
        // make scanning panic, stall or produce a malformed span
        let pats = |v: &[&str]| ModeSpec {
            name: "INITIAL".into(),
            pats: v
                .iter()
                .enumerate()
                .map(|(i, s)| PatSpec {
                    rx: rx::parse_supported(s),
                    tt: i,
                    la: None,
                })
                .collect(),
            transitions: vec![],
        };
        [
            vec!["[a-z]+", "[0-9]"],
            vec!["[^a]", "a"],
            vec![".", "\\n"],
            vec!["\\w+", "\\s"],
        ]
        .iter()
        .map(|v| Case {
            modes: vec![pats(v)],
            inputs: vec![crate::sets::all_scalars().to_string()],
            extra: serde_json::json!({"all_scalars": true}),
            ..Case::default()
        })
        .collect()
    }
    fn generate(&self, d: &mut Dec, thorough: bool) -> Case {
        let p = GenParams::for_tier(thorough)
            .with_lookaheads(48)
            .with_modes(4);
        let mut modes = gen::gen_modes(d, &p);
        let large = d.chance(p.large_per_256);
        if large {
            let mi = d.below(modes.len());
            modes[mi] = gen::gen_large_mode(d, &p, gen::MODE_NAMES[mi]);
            gen::add_many_transitions(d, &mut modes, mi);
        }
        let mut case = Case {
            modes,
            ..Case::default()
        };
        let model = case.model();
        let mut input = String::new();
        if large {
            input = if d.chance(16) {
                case.modes = gen::benign_modes();
                gen::gen_huge_input(d, &model)
            } else {
                gen::gen_long_input(d, &model, 60, 400)
            };
        }
        let pieces = 1 + d.below(5);
        for _ in 0..pieces {
            if d.chance(150) {
                input.push_str(&gen::gen_input(d, &model, 10));
            } else {
                for _ in 0..1 + d.below(4) {
                    input.push(gen::gen_any_char(d));
                }
            }
        }
        if !large && input.chars().count() > p.max_input_chars {
            input = input.chars().take(p.max_input_chars).collect();
        }
        case.inputs.push(input);
        let nops = d.below(8);
        let text = Text::new(case.input());
        let gen_off = |d: &mut Dec| -> usize {
            match d.weighted(&[32, 4, 4, 1]) {
                0 => text.offs[d.below(text.offs.len())],
                1 => text.byte_len(),
                2 => text.byte_len() + 1 + d.below(3),
                _ => *d.pick(&[usize::MAX, usize::MAX - 1, usize::MAX / 2, u32::MAX as usize + 1]),
            }
        };
        for _ in 0..nops {
            let op = match d.weighted(&[6, 3, 2, 3, 1, 2]) {
                0 => Op::Next,
                1 => Op::PeekN { n: gen::gen_peek_n_opt(d, 5, true) },
                2 => Op::SetMode {
                    m: d.below(case.modes.len()),
                },
                3 => Op::SetOffset { o: gen_off(d) },
                4 => {
                    if d.bool() {
                        Op::WithOffset { o: gen_off(d) }
                    } else {
                        Op::RebaseWithOffset { o: gen_off(d) }
                    }
                }
                _ => {
                    let n = 1 + d.below(3);
                    Op::PeekAdvance { n, k: d.below(n) }
                }
            };
            case.ops.push(op);
        }
        if d.chance(70) {
            // the adapter with positions is an iterator too (no peek / advance there)
            case.extra = serde_json::json!({"driver": "with_positions"});
            case.ops.retain(|o| matches!(o, Op::Next | Op::SetMode { .. } | Op::SetOffset { .. }));
        }
        case
    }
    fn check(&self, case: &Case) -> CheckResult {
        if let Err(r) = domain_ok(case) {
            return Ok(discard(r));
        }
        if case.inputs.len() != 1 {
            return Ok(discard("discard_shape"));
        }
        if case.extra["driver"].as_str() == Some("with_positions") {
            return check_c07_with_positions(case);
        }
        for op in &case.ops {
            match op {
                Op::Next | Op::PeekN { .. } => {}
                Op::SetMode { m } if *m < case.modes.len() => {}
                Op::SetOffset { o } | Op::WithOffset { o } | Op::RebaseWithOffset { o }
                    if *o > case.input().len() || case.input().is_char_boundary(*o) => {}
                Op::PeekAdvance { n, k } if k < n => {}
                _ => return Ok(discard("discard_op")),
            }
        }
        let mut st = CaseStats::default();
        let scanner = match build_guarded(case, false) {
            Err(mut f) => {
                f.kind = "c07.build_panic".into();
                return Err(f);
            }
            Ok(Err(_)) => {
                st.count("build_failed");
                st.inconclusive = true;
                return Ok(st);
            }
            Ok(Ok(s)) => s,
        };
        let input = case.input();
        let text = Text::new(input);
        let n = text.len();
        st.flag(
            "nullable_pattern",
            case.modes.iter().any(|m| m.pats.iter().any(|p| rx::nullable(&p.rx))),
        );
        st.flag(
            "lookahead_present",
            case.modes.iter().any(|m| m.pats.iter().any(|p| p.la.is_some())),
        );
        st.flag("four_byte_char", text.chars.iter().any(|c| c.len_utf8() == 4));
        st.flag("multi_mode", case.modes.len() > 1);
        st.flag("input_beyond_65535_bytes", input.len() > 65_535);

        let check_span = |t: &Tok, prev_end: usize, what: &str| -> Result<(), Failure> {
            let bad = if t.end <= t.start {
                Some("empty or inverted span")
            } else if t.end > input.len() {
                Some("span exceeds the input")
            } else if !input.is_char_boundary(t.start) || !input.is_char_boundary(t.end) {
                Some("span not on character boundaries")
            } else if t.start < prev_end {
                Some("span starts before the end of the previous token")
            } else {
                None
            };
            match bad {
                Some(b) => Err(Failure::new("c07.span", format!("{}: {}", what, b))
                    .exp_obs(format!("previous end {}", prev_end), t)),
                None => Ok(()),
            }
        };

        let r = guard(|| -> Result<(usize, usize), Failure> {
            let mut it = scanner.find_iter(input);
            let mut prev_end = 0usize;
            let mut tokens = 0usize;
            let mut consumed_chars = 0usize;
            let mut ended = false;
            let mut total_tokens = 0usize;
            // number of characters in front of the last reset position
            let budget_base = std::cell::Cell::new(0usize);
            let handle = |m: Option<scnr::Match>,
                              prev_end: &mut usize,
                              tokens: &mut usize,
                              consumed_chars: &mut usize,
                              ended: &mut bool|
             -> Result<(), Failure> {
                match m {
                    Some(m) => {
                        let t = Tok::of(&m);
                        if *ended {
                            return Err(Failure::new(
                                "c07.none_not_sticky",
                                "a token was returned after None",
                            )
                            .exp_obs("None", &t));
                        }
                        check_span(&t, *prev_end, "next()")?;
                        *prev_end = t.end;
                        *tokens += 1;
                        *consumed_chars += input[t.start..t.end].chars().count();
                        if *tokens > n - budget_base.get() {
                            return Err(Failure::new(
                                "c07.too_many_tokens",
                                "more tokens than input characters since the last reset",
                            ));
                        }
                    }
                    None => *ended = true,
                }
                Ok(())
            };
            for op in &case.ops {
                match op {
                    Op::Next => {
                        let m = it.next();
                        handle(m, &mut prev_end, &mut tokens, &mut consumed_chars, &mut ended)?;
                    }
                    Op::PeekN { n: k } => {
                        let pr = it.peek_n(*k);
                        let v = match pr {
                            scnr::PeekResult::Matches(v) => v,
                            scnr::PeekResult::MatchesReachedEnd(v) => v,
                            scnr::PeekResult::MatchesReachedModeSwitch((v, _)) => v,
                            scnr::PeekResult::NotFound => vec![],
                        };
                        if v.len() > *k {
                            return Err(Failure::new(
                                "c07.peek_too_many",
                                "peek_n returned more than n matches",
                            ));
                        }
                        let mut pe = prev_end;
                        for m in v {
                            check_span(&Tok::of(&m), pe, "peek_n()")?;
                            pe = m.end();
                        }
                    }
                    Op::SetMode { m } => it.set_mode(*m),
                    Op::SetOffset { o } | Op::WithOffset { o } | Op::RebaseWithOffset { o } => {
                        if matches!(op, Op::WithOffset { .. }) {
                            it = scanner.find_iter(input).with_offset(*o);
                        } else if matches!(op, Op::RebaseWithOffset { .. }) {
                            it = it.with_offset(*o);
                        } else {
                            it.set_offset(*o);
                        }
                        let oo = (*o).min(input.len());
                        prev_end = oo;
                        ended = false;
                        total_tokens += tokens;
                        tokens = 0;
                        budget_base.set(text.char_index(oo).unwrap_or(0));
                    }
                    Op::PeekAdvance { n: k, k: j } => {
                        let (v, target) = match it.peek_n(*k) {
                            scnr::PeekResult::Matches(v) | scnr::PeekResult::MatchesReachedEnd(v) => (v, None),
                            scnr::PeekResult::MatchesReachedModeSwitch((v, m)) => (v, Some(m)),
                            scnr::PeekResult::NotFound => (vec![], None),
                        };
                        if *j < v.len() {
                            let mut pe = prev_end;
                            for m in &v[..=*j] {
                                check_span(&Tok::of(m), pe, "peek_n()")?;
                                pe = m.end();
                            }
                            it.advance_to(v[*j].end());
                            prev_end = v[*j].end();
                            if *j == v.len() - 1 {
                                if let Some(m) = target {
                                    it.set_mode(m);
                                }
                            }
                        }
                    }
                    _ => {}
                }
            }
            // run to exhaustion with a bounded number of calls
            let mut calls = 0;
            while !ended {
                if calls > n + 4 {
                    return Err(Failure::new(
                        "c07.no_progress",
                        "iterator did not end after #chars+4 calls of next()",
                    ));
                }
                let m = it.next();
                handle(m, &mut prev_end, &mut tokens, &mut consumed_chars, &mut ended)?;
                calls += 1;
            }
            for _ in 0..3 {
                let m = it.next();
                handle(m, &mut prev_end, &mut tokens, &mut consumed_chars, &mut ended)?;
            }
            Ok((tokens + total_tokens, consumed_chars))
        });
        let (tokens, consumed) = match r {
            Err(p) => {
                return Err(Failure::panic(
                    "c07.panic",
                    format!("scanning {:?} panicked", input),
                    p,
                ))
            }
            Ok(Err(f)) => return Err(f),
            Ok(Ok(x)) => x,
        };
        st.add("tokens", tokens as u64);
        let multibyte = input.len() != n;
        st.flag("multibyte_input", multibyte);
        if multibyte && tokens > 0 && consumed < n {
            st.nontrivial = true;
        }
        Ok(st)
    }
}
