//! C12: scanners and iterators are isolated from each other and from their past.

use super::common::*;
use super::modes::gen_mode_graph_case;
use crate::case::*;
use crate::dec::Dec;
use crate::gen;
use crate::model::Tok;
use crate::run::{guard, CaseStats, Check, CheckResult, Failure};
use scnr::{PeekResult, ScannerModeSwitcher};

pub struct C12;

#[derive(Debug, Clone, PartialEq)]
enum Obs {
    Next(Option<Tok>, usize),
    Peek(Vec<Tok>, &'static str, Option<usize>, usize),
    Mode(usize),
}

fn apply(it: &mut scnr::FindMatches<'_>, op: &Op) -> Option<Obs> {
    Some(match op {
        Op::Next => {
            let t = it.next().map(|m| Tok::of(&m));
            Obs::Next(t, it.current_mode())
        }
        Op::PeekN { n } => {
            let (v, name, target) = match it.peek_n(*n) {
                PeekResult::Matches(v) => (v, "Matches", None),
                PeekResult::MatchesReachedEnd(v) => (v, "MatchesReachedEnd", None),
                PeekResult::MatchesReachedModeSwitch((v, m)) => (v, "MatchesReachedModeSwitch", Some(m)),
                PeekResult::NotFound => (vec![], "NotFound", None),
            };
            Obs::Peek(v.iter().map(Tok::of).collect(), name, target, it.current_mode())
        }
        Op::SetMode { m } => {
            it.set_mode(*m);
            Obs::Mode(it.current_mode())
        }
        Op::SetOffset { o } => {
            it.set_offset(*o);
            Obs::Mode(it.current_mode())
        }
        Op::CurrentMode => Obs::Mode(it.current_mode()),
        _ => return None,
    })
}

impl Check for C12 {
    fn id(&self) -> &'static str {
        "C12"
    }
    fn rule(&self) -> &'static str {
        "case = one configuration (mode graph with lookaheads), 2-3 inputs, up to 2 scanners obtained with build() (same cache entry) and up to 6 (occasionally 40) live iterators; an interleaved history of create(scanner, input) | next(i) | peek_n(i, n) | set_mode(i, m) | set_offset(i, o) | drop(i) | Scanner::set_mode(s, m); oracle = for each iterator its own sub-history is replayed alone on a scanner from build_uncached() and every observation (tokens, peek results, current_mode after each call) must be identical, and a second isolated replay without the peeks must give the same non-peek observations; ~19% of the cases additionally scan 3-7 inputs of equal byte length (variants of one input differing in 1-3 characters) one after the other from ONE reused buffer (same address), the earlier ones only partially or only peeked, each compared with a fresh uncached scanner on a private copy; non-trivial = two iterators alive at the same time with interleaved next calls on different inputs or in different modes"
    }
    fn cases(&self, thorough: bool) -> usize {
        if thorough {
            400_000
        } else {
            40_000
        }
    }
    fn nondeterministic(&self) -> bool {
        // a leak from the past (state shared through the cached compilation, keyed by addresses,
        // left by other cases of this process) need not show again when the case runs alone
        true
    }
    fn generate(&self, d: &mut Dec, thorough: bool) -> Case {
        let mut case = gen_mode_graph_case(d, thorough, 30);
        let model = case.model();
        for _ in 0..1 + d.below(2) {
            case.inputs.push(gen::gen_input(d, &model, if thorough { 40 } else { 20 }));
        }
        if d.chance(40) {
            // characters next to their aliases (same low 8 / 16 / 20 bits) in the inputs of the
            // iterators that share one compilation: anything memoised per character behind the
            // shared scanner is asked about both
            for inp in case.inputs.iter_mut() {
                let chars: Vec<char> = inp.chars().collect();
                for _ in 0..2 + d.below(3) {
                    let c = if chars.is_empty() || d.bool() { gen::gen_char(d) } else { chars[d.below(chars.len())] };
                    let delta = *d.pick(&[0x100u32, 0x10000, 0x10000, 0x100000, 0x100000, 0x400]);
                    inp.push(c);
                    if let Some(a) = char::from_u32(c as u32 + delta) {
                        inp.push(a);
                        inp.push(c);
                    }
                }
            }
        }
        if d.chance(48) {
            // the line-buffer idiom: inputs of equal byte length that differ in a few characters
            // are scanned one after the other from ONE reused buffer (same address), the earlier
            // ones only partially or only peeked
            let base: Vec<char> = case.inputs[0].chars().collect();
            let mut seq = Vec::new();
            if !base.is_empty() {
                let first_variant = case.inputs.len();
                for _ in 0..1 + d.below(2) {
                    let mut v = base.clone();
                    for _ in 0..1 + d.below(3) {
                        let i = d.below(v.len());
                        let pool: Vec<char> = gen::ALPHABET.iter().copied().filter(|c| c.len_utf8() == v[i].len_utf8()).collect();
                        if !pool.is_empty() {
                            v[i] = *d.pick(&pool);
                        }
                    }
                    case.inputs.push(v.into_iter().collect());
                }
                let nvar = case.inputs.len() - first_variant;
                for _ in 0..2 + d.below(4) {
                    let which = if d.bool() { 0 } else { first_variant + d.below(nvar) };
                    let take = *d.pick(&[0usize, 1, 1, 2, 3, usize::MAX]);
                    seq.push(serde_json::json!([which, if take == usize::MAX { -1i64 } else { take as i64 }, d.bool()]));
                }
                // the last one is scanned completely
                let which = if d.bool() { 0 } else { first_variant + d.below(nvar) };
                seq.push(serde_json::json!([which, -1, false]));
            }
            case.extra = serde_json::json!({"reused_buffer": seq});
        }
        let nm = case.modes.len();
        let ninp = case.inputs.len();
        let nops = 6 + d.below(if thorough { 50 } else { 30 });
        let mut created = 0usize;
        let max_iters = if d.chance(8) { 40 } else { 6 };
        let nops = if max_iters > 6 { nops + 60 } else { nops };
        for _ in 0..nops {
            let w_on = if created > 0 { 14 } else { 0 };
            match d.weighted(&[3, w_on, 1]) {
                0 if created < max_iters => {
                    case.ops.push(Op::Create {
                        s: d.below(2),
                        inp: d.below(ninp),
                    });
                    created += 1;
                }
                1 => {
                    let it = d.below(created);
                    let inp_len = 24;
                    let inner = match d.weighted(&[12, 3, 2, 2, 1]) {
                        0 => Op::Next,
                        1 => Op::PeekN { n: gen::gen_peek_n(d, 4) },
                        2 => Op::SetMode { m: d.below(nm) },
                        3 => Op::SetOffset { o: d.below(inp_len) },
                        _ => Op::Drop,
                    };
                    case.ops.push(Op::On {
                        it,
                        inner: Box::new(inner),
                    });
                }
                _ => case.ops.push(Op::ScannerSetMode {
                    s: d.below(2),
                    m: d.below(nm),
                }),
            }
        }
        case
    }
    fn check(&self, case: &Case) -> CheckResult {
        if let Err(r) = domain_ok(case) {
            return Ok(discard(r));
        }
        if case.inputs.is_empty() {
            return Ok(discard("discard_shape"));
        }
        let nm = case.modes.len();
        // validate the history
        let mut created: Vec<usize> = Vec::new(); // input index per iterator
        for op in &case.ops {
            match op {
                Op::Create { s, inp } if *s < 2 && *inp < case.inputs.len() => created.push(*inp),
                Op::ScannerSetMode { s, m } if *s < 2 && *m < nm => {}
                Op::On { it, inner } if *it < created.len() => match &**inner {
                    Op::Next | Op::PeekN { .. } | Op::Drop | Op::CurrentMode => {}
                    Op::SetMode { m } if *m < nm => {}
                    Op::SetOffset { .. } => {}
                    _ => return Ok(discard("discard_op")),
                },
                _ => return Ok(discard("discard_op")),
            }
        }
        let mut st = CaseStats::default();
        let s0 = match build_guarded(case, true)? {
            Ok(s) => s,
            Err(_) => {
                st.count("build_failed");
                st.inconclusive = true;
                return Ok(st);
            }
        };
        let s1 = match build_guarded(case, true)? {
            Ok(s) => s,
            Err(_) => return Err(Failure::new("c12.build", "second build() of the same configuration failed")),
        };
        let mut scanners = [s0, s1];

        // offsets are mapped onto character boundaries of the iterator's input
        let fix_offset = |inp: &str, o: usize| -> usize {
            let mut o = o.min(inp.len() + 2);
            while o <= inp.len() && !inp.is_char_boundary(o) {
                o -= 1;
            }
            o
        };

        let r = guard(|| -> Result<(Vec<Vec<(Op, Obs)>>, CaseStats), Failure> {
            let mut st = CaseStats::default();
            let mut its: Vec<Option<scnr::FindMatches<'_>>> = Vec::new();
            let mut inputs_of: Vec<usize> = Vec::new();
            let mut logs: Vec<Vec<(Op, Obs)>> = Vec::new();
            let mut last_next: Option<usize> = None;
            for op in &case.ops {
                match op {
                    Op::Create { s, inp } => {
                        its.push(Some(scanners[*s].find_iter(&case.inputs[*inp])));
                        inputs_of.push(*inp);
                        logs.push(Vec::new());
                        st.count("iterators");
                    }
                    Op::ScannerSetMode { s, m } => {
                        scanners[*s].set_mode(*m);
                        st.count("scanner_set_mode");
                    }
                    Op::On { it, inner } => {
                        if matches!(**inner, Op::Drop) {
                            if its[*it].take().is_some() {
                                st.count("drops");
                            }
                            continue;
                        }
                        let alive = its.iter().filter(|x| x.is_some()).count();
                        let Some(f) = its[*it].as_mut() else { continue };
                        let eff = match &**inner {
                            Op::SetOffset { o } => Op::SetOffset {
                                o: fix_offset(&case.inputs[inputs_of[*it]], *o),
                            },
                            other => other.clone(),
                        };
                        if let Some(obs) = apply(f, &eff) {
                            if matches!(eff, Op::Next) {
                                if let Some(prev) = last_next {
                                    if prev != *it && alive >= 2 && its[prev].is_some() {
                                        let other_mode = its[prev].as_ref().unwrap().current_mode();
                                        let this_mode = its[*it].as_ref().unwrap().current_mode();
                                        if inputs_of[prev] != inputs_of[*it] || other_mode != this_mode {
                                            st.nontrivial = true;
                                            st.count("interleaved_next_calls");
                                        }
                                    }
                                }
                                last_next = Some(*it);
                            }
                            logs[*it].push((eff, obs));
                        }
                    }
                    _ => {}
                }
            }
            Ok((logs, st))
        });
        let (logs, s2) = match r {
            Err(p) => return Err(Failure::panic("c12.panic", "interleaved history panicked", p)),
            Ok(Err(f)) => return Err(f),
            Ok(Ok(x)) => x,
        };
        st.counters.extend(s2.counters);
        st.nontrivial = s2.nontrivial;
        // replay each iterator alone on a scanner that never saw the cache or another iterator
        for (k, log) in logs.iter().enumerate() {
            if log.is_empty() {
                continue;
            }
            let inp = &case.inputs[created[k]];
            let r = guard(|| -> Result<(), Failure> {
                let fresh = case
                    .build_uncached()
                    .map_err(|e| Failure::new("c12.build", format!("build_uncached failed: {}", e)))?;
                let mut it = fresh.find_iter(inp);
                for (i, (op, seen)) in log.iter().enumerate() {
                    let alone = apply(&mut it, op).unwrap();
                    if &alone != seen {
                        return Err(Failure::new(
                            "c12.isolation",
                            format!(
                                "iterator {} (input {:?}): call {} = {:?} observed something else among the other iterators than alone",
                                k, inp, i, op
                            ),
                        )
                        .exp_obs(alone, seen));
                    }
                }
                Ok(())
            });
            match r {
                Err(p) => return Err(Failure::panic("c12.panic", "isolated replay panicked", p)),
                Ok(Err(f)) => return Err(f),
                Ok(Ok(())) => {}
            }
            // "unaffected ... by peeks": the same calls without the peeks observe the same
            if log.iter().any(|(op, _)| matches!(op, Op::PeekN { .. })) {
                let r = guard(|| -> Result<(), Failure> {
                    let fresh = case
                        .build_uncached()
                        .map_err(|e| Failure::new("c12.build", format!("build_uncached failed: {}", e)))?;
                    let mut it = fresh.find_iter(inp);
                    for (i, (op, seen)) in log.iter().enumerate() {
                        if matches!(op, Op::PeekN { .. }) {
                            continue;
                        }
                        let alone = apply(&mut it, op).unwrap();
                        if &alone != seen {
                            return Err(Failure::new(
                                "c12.peeks",
                                format!(
                                    "iterator {} (input {:?}): call {} = {:?} observed something else than the same history without its peeks",
                                    k, inp, i, op
                                ),
                            )
                            .exp_obs(alone, seen));
                        }
                    }
                    Ok(())
                });
                match r {
                    Err(p) => return Err(Failure::panic("c12.panic", "peek-free replay panicked", p)),
                    Ok(Err(f)) => return Err(f),
                    Ok(Ok(())) => st.count("peek_free_replays"),
                }
            }
        }
        // inputs scanned earlier from the same (reused) buffer
        if let Some(seq) = case.extra.get("reused_buffer").and_then(|v| v.as_array()) {
            let steps: Vec<(usize, Option<usize>, bool)> = seq
                .iter()
                .filter_map(|e| {
                    let which = e.get(0)?.as_u64()? as usize;
                    let take = e.get(1)?.as_i64()?;
                    let peek = e.get(2)?.as_bool()?;
                    (which < case.inputs.len()).then_some((which, (take >= 0).then_some(take as usize), peek))
                })
                .collect();
            let cap = case.inputs.iter().map(|s| s.len()).max().unwrap_or(0) + 8;
            let r = guard(|| -> Result<u64, Failure> {
                let fresh = case
                    .build_uncached()
                    .map_err(|e| Failure::new("c12.build", format!("build_uncached failed: {}", e)))?;
                let mut buf = String::with_capacity(cap);
                let mut same_address = 0u64;
                let mut last_ptr = None;
                for (si, (which, take, peek)) in steps.iter().enumerate() {
                    let inp = &case.inputs[*which];
                    buf.clear();
                    buf.push_str(inp);
                    if last_ptr == Some(buf.as_ptr() as usize) {
                        same_address += 1;
                    }
                    last_ptr = Some(buf.as_ptr() as usize);
                    let nchars = inp.chars().count();
                    let limit = take.unwrap_or(nchars + 2);
                    let observe = |it: &mut scnr::FindMatches<'_>| -> Vec<Obs> {
                        let mut v = Vec::new();
                        if *peek {
                            v.extend(apply(it, &Op::PeekN { n: limit.min(nchars + 2) }));
                        } else {
                            for _ in 0..limit {
                                let o = apply(it, &Op::Next).unwrap();
                                let end = matches!(o, Obs::Next(None, _));
                                v.push(o);
                                if end {
                                    break;
                                }
                            }
                        }
                        v
                    };
                    let seen = {
                        let mut it = scanners[si % 2].find_iter(&buf);
                        observe(&mut it)
                    };
                    let alone = {
                        let copy = inp.clone();
                        let mut it = fresh.find_iter(&copy);
                        observe(&mut it)
                    };
                    if seen != alone {
                        return Err(Failure::new(
                            "c12.earlier_input",
                            format!(
                                "step {} of the reused-buffer sequence {:?}: scanning {:?} from a buffer that held other inputs before differs from scanning it with a fresh scanner",
                                si, steps, inp
                            ),
                        )
                        .exp_obs(alone, seen));
                    }
                }
                Ok(same_address)
            });
            match r {
                Err(p) => return Err(Failure::panic("c12.panic", "reused-buffer sequence panicked", p)),
                Ok(Err(f)) => return Err(f),
                Ok(Ok(n)) => {
                    st.count("reused_buffer_sequences");
                    st.add("inputs_scanned_at_the_address_of_an_earlier_one", n);
                }
            }
        }
        Ok(st)
    }
}
