//! C17: large automata compile correctly or not at all.

use super::common::*;
use crate::case::*;
use crate::dec::Dec;
use crate::model::Tok;
use crate::run::{guard, Aggregate, CaseStats, Check, CheckResult, Failure};
use crate::sets::char_of;
use serde_json::{json, Value};

pub struct C17;

#[derive(Debug, Clone)]
enum Family {
    /// K single-character patterns; character i = char_of(base + i), token type = map(i)
    List { k: usize, base: usize, tt_mul: usize, tt_add: usize },
    /// all words over {a,b} of length `len` as keywords (2^len patterns sharing prefixes) + `[ab]+`
    Keywords { len: usize },
    /// x{n}y
    ChainX { n: usize },
    /// [ab]{n}c
    ChainClass { n: usize },
    /// (xy){n}z
    ChainGroup { n: usize },
    /// n keywords k0000 .. sharing their first character (one state with n transitions on one class)
    Numbered { n: usize },
    /// a counted repetition that is the whole pattern: shape 0 = a{n}, 1 = (ab){n}, 2 = a{n,},
    /// 3 = a{n-n/3,n}
    Pure { n: usize, shape: usize },
    /// all k*k two-letter keywords over k letters (U+0100 ..), each with its own token type: a wide
    /// automaton of depth two (k = 182 crosses 65 535 unminimized states)
    Pairs { k: usize },
}

fn family_of(v: &Value) -> Option<Family> {
    let n = |k: &str| v[k].as_u64().map(|x| x as usize);
    Some(match v["kind"].as_str()? {
        "list" => Family::List {
            k: n("k")?,
            base: n("base")?,
            tt_mul: n("tt_mul")?,
            tt_add: n("tt_add")?,
        },
        "keywords" => Family::Keywords { len: n("len")? },
        "chain_x" => Family::ChainX { n: n("n")? },
        "chain_class" => Family::ChainClass { n: n("n")? },
        "chain_group" => Family::ChainGroup { n: n("n")? },
        "numbered" => Family::Numbered { n: n("n")? },
        "pure" => Family::Pure { n: n("n")?, shape: n("shape")? },
        "pairs" => Family::Pairs { k: n("k")? },
        _ => return None,
    })
}

fn family_json(f: &Family) -> Value {
    match f {
        Family::List { k, base, tt_mul, tt_add } => {
            json!({"kind": "list", "k": k, "base": base, "tt_mul": tt_mul, "tt_add": tt_add})
        }
        Family::Keywords { len } => json!({"kind": "keywords", "len": len}),
        Family::ChainX { n } => json!({"kind": "chain_x", "n": n}),
        Family::ChainClass { n } => json!({"kind": "chain_class", "n": n}),
        Family::ChainGroup { n } => json!({"kind": "chain_group", "n": n}),
        Family::Numbered { n } => json!({"kind": "numbered", "n": n}),
        Family::Pure { n, shape } => json!({"kind": "pure", "n": n, "shape": shape}),
        Family::Pairs { k } => json!({"kind": "pairs", "k": k}),
    }
}

fn case_of(f: &Family) -> Case {
    Case {
        extra: json!({ "family": family_json(f) }),
        ..Case::default()
    }
}

/// (patterns, probes) where a probe is (input, expected token list); the expectation is the
/// closed form of the longest-match rule for the family.
fn instance(f: &Family) -> (Vec<scnr::Pattern>, Vec<(String, Vec<Tok>)>) {
    match f {
        Family::List { k, base, tt_mul, tt_add } => {
            let ch = |i: usize| char_of(base + i);
            let tt = |i: usize| i * tt_mul + tt_add;
            let pats = (0..*k)
                .map(|i| scnr::Pattern::new(format!("\\u{{{:X}}}", ch(i) as u32), tt(i)))
                .collect();
            let mut idx: Vec<usize> = vec![0, 1, k / 2, k - 1];
            for i in [65_534usize, 65_535, 65_536, 65_537, 32_767, 32_768] {
                if i < *k {
                    idx.push(i);
                }
            }
            // some pseudo-random ones (deterministic)
            let mut x = 12345usize;
            for _ in 0..24 {
                x = x.wrapping_mul(6364136223846793005).wrapping_add(1442695040888963407);
                idx.push((x >> 33) % k);
            }
            let outside = char_of(base + k + 3);
            let mut input = String::new();
            let mut exp = Vec::new();
            for (n, i) in idx.iter().enumerate() {
                if n % 5 == 4 {
                    input.push(outside); // skipped
                }
                let s = input.len();
                input.push(ch(*i));
                exp.push(Tok {
                    tt: tt(*i),
                    start: s,
                    end: input.len(),
                });
            }
            (pats, vec![(input, exp)])
        }
        Family::Keywords { len } => {
            let n = 1usize << len;
            let mut pats = Vec::new();
            for w in 0..n {
                let s: String = (0..*len).map(|b| if (w >> b) & 1 == 1 { 'b' } else { 'a' }).collect();
                pats.push(scnr::Pattern::new(s, w + 1));
            }
            pats.push(scnr::Pattern::new("[ab]+".to_string(), 0));
            let word = |w: usize| -> String { (0..*len).map(|b| if (w >> b) & 1 == 1 { 'b' } else { 'a' }).collect() };
            let mut probes = Vec::new();
            for w in [0, 1, n / 2, n - 1, n / 3] {
                // exact keyword: tie between keyword (listed first) and [ab]+ -> keyword
                let s = word(w);
                probes.push((s.clone(), vec![Tok { tt: w + 1, start: 0, end: s.len() }]));
                // keyword + one more letter: [ab]+ is longer
                let s2 = format!("{}a", word(w));
                probes.push((s2.clone(), vec![Tok { tt: 0, start: 0, end: s2.len() }]));
                // keyword, separator, shorter word
                let s3 = format!("{} {}", word(w), &word(w)[1..]);
                let l = word(w).len();
                probes.push((
                    s3.clone(),
                    vec![
                        Tok { tt: w + 1, start: 0, end: l },
                        Tok { tt: 0, start: l + 1, end: s3.len() },
                    ],
                ));
            }
            (pats, probes)
        }
        Family::Numbered { n } => {
            let width = 5;
            let kw = |i: usize| format!("k{:0w$}", i, w = width);
            let pats = (0..*n).map(|i| scnr::Pattern::new(kw(i), i + 10)).collect();
            let mut idx: Vec<usize> = vec![0, 1, n / 2, n - 1, n - 2];
            for i in [255usize, 256, 1023, 1024, 1025, 2047, 2048, 4095, 4096] {
                if i < *n {
                    idx.push(i);
                }
            }
            let mut input = String::new();
            let mut exp = Vec::new();
            for i in idx {
                let s = input.len();
                input.push_str(&kw(i));
                exp.push(Tok { tt: i + 10, start: s, end: input.len() });
                input.push(' ');
            }
            // a keyword that is not in the list: nothing matches inside it
            input.push_str(&kw(*n + 7));
            (pats, vec![(input, exp)])
        }
        Family::Pairs { k } => {
            let k = *k;
            let letter = |i: usize| char_of(0x100 + i);
            let word = |w: usize| -> String { [letter(w / k), letter(w % k)].iter().collect() };
            let pats: Vec<scnr::Pattern> = (0..k * k).map(|w| scnr::Pattern::new(word(w), w + 1)).collect();
            let total = k * k;
            let mut idx: Vec<usize> = vec![0, 1, k - 1, k, total / 2, total - 2, total - 1];
            for i in [255usize, 256, 4095, 4096, 16_383, 16_384, 32_766, 32_767, 32_768, 32_769, 33_000] {
                if i < total {
                    idx.push(i);
                }
            }
            let mut x = 99usize;
            for _ in 0..24 {
                x = x.wrapping_mul(6364136223846793005).wrapping_add(1442695040888963407);
                idx.push((x >> 33) % total);
            }
            let mut input = String::new();
            let mut exp = Vec::new();
            for (n, w) in idx.iter().enumerate() {
                if n % 4 == 3 {
                    // a lone first letter followed by a foreign character: nothing matches there
                    input.push(letter(w / k));
                    input.push('!');
                }
                let s = input.len();
                input.push_str(&word(*w));
                exp.push(Tok { tt: w + 1, start: s, end: input.len() });
            }
            (pats, vec![(input, exp)])
        }
        Family::Pure { n, shape } => {
            let n = *n;
            let tok = |s: usize, e: usize| Tok { tt: 7, start: s, end: e };
            let a = |m: usize| "a".repeat(m);
            let (pat, probes): (String, Vec<(String, Vec<Tok>)>) = match shape {
                0 => (
                    format!("a{{{}}}", n),
                    vec![
                        (a(n), vec![tok(0, n)]),
                        (a(n - 1), vec![]),
                        (a(n + 1), vec![tok(0, n)]),
                        (a(2 * n + 1), vec![tok(0, n), tok(n, 2 * n)]),
                        (format!("{}b{}", a(n - 1), a(n)), vec![tok(n, 2 * n)]),
                    ],
                ),
                1 => (
                    format!("(ab){{{}}}", n),
                    vec![
                        ("ab".repeat(n), vec![tok(0, 2 * n)]),
                        ("ab".repeat(n - 1), vec![]),
                        (format!("{}a", "ab".repeat(n - 1)), vec![]),
                        ("ab".repeat(n + 1), vec![tok(0, 2 * n)]),
                    ],
                ),
                2 => (
                    format!("a{{{},}}", n),
                    vec![
                        (a(n), vec![tok(0, n)]),
                        (a(n - 1), vec![]),
                        (a(n + 5), vec![tok(0, n + 5)]),
                        (format!("{}b{}", a(n - 1), a(n + 1)), vec![tok(n, 2 * n + 1)]),
                    ],
                ),
                _ => {
                    let m = n - n / 3;
                    (
                        format!("a{{{},{}}}", m, n),
                        vec![
                            (a(n), vec![tok(0, n)]),
                            (a(m), vec![tok(0, m)]),
                            (a(m - 1), vec![]),
                            (a(n + 2), vec![tok(0, n)]),
                            (a(n + m), vec![tok(0, n), tok(n, n + m)]),
                        ],
                    )
                }
            };
            (vec![scnr::Pattern::new(pat, 7)], probes)
        }
        Family::ChainX { n } | Family::ChainClass { n } | Family::ChainGroup { n } => {
            let (pat, unit, last): (String, &str, char) = match f {
                Family::ChainX { .. } => (format!("x{{{}}}y", n), "x", 'y'),
                Family::ChainClass { .. } => (format!("[ab]{{{}}}c", n), "ab", 'c'),
                _ => (format!("(xy){{{}}}z", n), "xy", 'z'),
            };
            // body of m units
            let body = |m: usize| -> String {
                match f {
                    Family::ChainClass { .. } => (0..m).map(|i| if i % 3 == 0 { 'b' } else { 'a' }).collect(),
                    _ => unit.repeat(m),
                }
            };
            let unit_len = if matches!(f, Family::ChainGroup { .. }) { 2 } else { 1 };
            let mut probes = Vec::new();
            // exact length
            let s = format!("{}{}", body(*n), last);
            probes.push((s.clone(), vec![Tok { tt: 7, start: 0, end: s.len() }]));
            // one unit shorter: nothing matches anywhere
            probes.push((format!("{}{}", body(n - 1), last), vec![]));
            // 2^16 units shorter (if possible)
            if *n > 65_536 {
                probes.push((format!("{}{}", body(n - 65_536), last), vec![]));
            }
            // one unit longer: the match starts one unit later
            let s = format!("{}{}", body(n + 1), last);
            probes.push((s.clone(), vec![Tok { tt: 7, start: unit_len, end: s.len() }]));
            (vec![scnr::Pattern::new(pat, 7)], probes)
        }
    }
}

impl Check for C17 {
    fn id(&self) -> &'static str {
        "C17"
    }
    fn rule(&self) -> &'static str {
        "case = instance of a parametrised family: K single-character patterns with distinct sparse token types (K up to 70 000), all 2^L keywords over {a,b} sharing prefixes plus [ab]+, n numbered keywords k00000.. sharing their first character (fixed: 300, 1 100, 2 100; 2^10 keywords), chains x{N}y, [ab]{N}c, (xy){N}z, all k*k two-letter keywords over k letters with a token type each (k = 182 crosses 65 535 states at depth two), counted repetitions that are the whole pattern a{N}, (ab){N}, a{N,}, a{M,N} (exact, one short, one long, two in a row, after a near miss); probes: for lists the characters at indices 0, 1, K/2, 32 767, 32 768, 65 534..65 537, K-1 and pseudo-random ones with skipped foreign characters in between; for chains the accepted word of exact length, one unit shorter, 2^16 units shorter, one unit longer; oracle = closed form of the longest-match / first-listed rule for the family; build may return Err (then nothing else is required), a panic or a different token stream is a violation; quick = 24 generated instances of 1 000-16 000 states; thorough = additionally fixed instances crossing 65 535 states (lists with K = 65 534, 65 537, 66 000, 70 000 and the chain x{66000}y); non-trivial = instance whose unminimized automaton (feature-gated recorder) has > 1 000 states (quick) / > 65 535 states (thorough fixed instances)"
    }
    fn cases(&self, thorough: bool) -> usize {
        if thorough {
            32
        } else {
            24
        }
    }
    fn case_timeout_s(&self) -> u64 {
        7200
    }
    fn fail_fast_fixed(&self) -> bool {
        true
    }
    fn fixed_cases(&self, thorough: bool) -> Vec<Case> {
        let mut v = vec![
            // small instances cross-check the closed forms cheaply (also with the `ends` matcher)
            case_of(&Family::List { k: 40, base: 0x61, tt_mul: 1, tt_add: 0 }),
            case_of(&Family::Keywords { len: 3 }),
            case_of(&Family::ChainX { n: 5 }),
            case_of(&Family::ChainClass { n: 6 }),
            case_of(&Family::ChainGroup { n: 4 }),
            case_of(&Family::Numbered { n: 30 }),
            case_of(&Family::Pairs { k: 5 }),
            case_of(&Family::Pairs { k: 33 }),
            case_of(&Family::Pure { n: 7, shape: 0 }),
            case_of(&Family::Pure { n: 6, shape: 1 }),
            case_of(&Family::Pure { n: 9, shape: 2 }),
            case_of(&Family::Pure { n: 9, shape: 3 }),
            // counted repetitions that are the whole pattern, beyond 1 024 / 2 048 / 4 096 states
            case_of(&Family::Pure { n: 1_500, shape: 0 }),
            case_of(&Family::Pure { n: 700, shape: 1 }),
            case_of(&Family::Pure { n: 2_300, shape: 2 }),
            case_of(&Family::Pure { n: 520, shape: 3 }),
            // thresholds in the number of patterns / transitions of one state: 256, 1024, 2048
            case_of(&Family::Numbered { n: 300 }),
            case_of(&Family::Numbered { n: 1100 }),
            case_of(&Family::Numbered { n: 2100 }),
            case_of(&Family::Keywords { len: 10 }),
            // a chain deeper than 4 096 states
            case_of(&Family::ChainX { n: 4_200 }),
        ];
        if thorough {
            // the instances beyond 65 535 states take minutes each: every one goes to the front of a
            // chunk of its own (the runner cuts the list into one chunk per thread), cheapest first
            let big = vec![
                case_of(&Family::Pairs { k: 182 }),
                case_of(&Family::List { k: 65_534, base: 0x1000, tt_mul: 1, tt_add: 100_000 }),
                case_of(&Family::List { k: 65_537, base: 0x3000, tt_mul: 2, tt_add: 5 }),
                case_of(&Family::List { k: 66_000, base: 0x4E00, tt_mul: 1, tt_add: 0 }),
                case_of(&Family::List { k: 70_000, base: 0x20000 - 0x800, tt_mul: 3, tt_add: 1 }),
                case_of(&Family::Pure { n: 6_000, shape: 1 }),
                case_of(&Family::ChainX { n: 66_000 }),
                case_of(&Family::Pure { n: 40_000, shape: 0 }),
            ];
            let small = std::mem::take(&mut v);
            let per_chunk = (small.len() + big.len()).div_ceil(16).max(1);
            let mut small = small.into_iter();
            for b in big {
                v.push(b);
                for _ in 1..per_chunk {
                    v.extend(small.next());
                }
            }
            v.extend(small);
        }
        v
    }
    fn generate(&self, d: &mut Dec, thorough: bool) -> Case {
        let scale = if thorough { 2 } else { 1 };
        let f = match d.below(8) {
            6 | 7 => {
                // (xy){n} and a{m,n} cost scnr far more than linear time to build
                let shape = d.below(4);
                let n = match shape {
                    1 => 300 + d.below(900 * scale),
                    3 => 150 + d.below(350 * scale),
                    _ => 300 + d.below(2_500 * scale),
                };
                Family::Pure { n, shape }
            }
            5 => Family::Numbered {
                n: 200 + d.below(2_500 * scale),
            },
            0 => Family::List {
                k: 1_000 + d.below(15_000 * scale),
                base: *d.pick(&[0x100usize, 0x4E00, 0x10000 - 0x800, 0xD7F0]),
                tt_mul: 1 + d.below(3),
                tt_add: d.below(100),
            },
            1 => Family::Keywords {
                len: 7 + d.below(3 + scale),
            },
            2 => Family::ChainX {
                n: 1_000 + d.below(3_000 * scale),
            },
            3 => Family::ChainClass {
                n: 1_000 + d.below(2_500 * scale),
            },
            _ => Family::ChainGroup {
                n: 500 + d.below(1_500 * scale),
            },
        };
        case_of(&f)
    }
    fn extra_coverage(&self, agg: &Aggregate) -> Value {
        json!({
            "unminimized_states_summed_over_instances_beyond_65535": agg.counters.get("unminimized_states_summed_over_instances_beyond_65535").copied().unwrap_or(0),
        })
    }
    fn check(&self, case: &Case) -> CheckResult {
        let Some(f) = family_of(&case.extra["family"]) else {
            return Ok(discard("discard_shape"));
        };
        match &f {
            Family::List { k, base, .. } if *k < 2 || base + k + 4 >= crate::sets::NSCALARS => return Ok(discard("discard_shape")),
            Family::Keywords { len } if *len < 1 || *len > 14 => return Ok(discard("discard_shape")),
            Family::ChainX { n } | Family::ChainClass { n } | Family::ChainGroup { n } if *n < 2 => {
                return Ok(discard("discard_shape"))
            }
            Family::Numbered { n } if *n < 3 || *n > 90_000 => return Ok(discard("discard_shape")),
            Family::Pure { n, shape } if *n < 6 || *n > 200_000 || *shape > 3 => return Ok(discard("discard_shape")),
            Family::Pairs { k } if *k < 2 || *k > 400 => return Ok(discard("discard_shape")),
            _ => {}
        }
        let (pats, probes) = instance(&f);
        let mut st = CaseStats::default();
        let t0 = std::time::Instant::now();
        let built = guard(|| {
            scnr::verif::record_minimizer(true);
            let r = scnr::ScannerBuilder::new()
                .add_scanner_mode(scnr::ScannerMode::new("INITIAL", pats.clone(), vec![]))
                .build_uncached();
            let log = scnr::verif::take_minimizer_log();
            scnr::verif::record_minimizer(false);
            (r, log.iter().map(|(b, a)| (b.states, a.states)).collect::<Vec<_>>())
        });
        let (scanner, sizes) = match built {
            Err(p) => {
                scnr::verif::record_minimizer(false);
                return Err(Failure::panic("c17.panic", "building panicked", p));
            }
            Ok((Err(_), _)) => {
                // rejected with an error: allowed
                st.count("rejected_with_error");
                return Ok(st);
            }
            Ok((Ok(s), sizes)) => (s, sizes),
        };
        st.add("build_ms", t0.elapsed().as_millis() as u64);
        let before = sizes.iter().map(|s| s.0).max().unwrap_or(0);
        st.flag("unminimized_gt_1000", before > 1_000);
        st.flag("unminimized_gt_65535", before > 65_535);
        st.nontrivial = before > 1_000;
        // (max over cases is taken by summing flags; the largest size is reported through samples)
        if before > 65_535 {
            st.add("unminimized_states_summed_over_instances_beyond_65535", before as u64);
        }
        for (input, expected) in &probes {
            let r = guard(|| scanner.find_iter(input).map(|m| Tok::of(&m)).collect::<Vec<_>>());
            let got = match r {
                Err(p) => return Err(Failure::panic("c17.panic", "scanning panicked", p)),
                Ok(g) => g,
            };
            if &got != expected {
                let short: String = input.chars().take(40).collect();
                return Err(Failure::new(
                    "c17.stream",
                    format!(
                        "{:?} ({} unminimized states): token stream on an input of {} bytes ({:?}…) differs from the longest-match rule",
                        family_json(&f),
                        before,
                        input.len(),
                        short
                    ),
                )
                .exp_obs(expected.iter().take(12).collect::<Vec<_>>(), got.iter().take(12).collect::<Vec<_>>()));
            }
            st.count("probes");
        }
        // small instances: the closed form itself is cross-checked with the reference tokenizer
        if pats.len() <= 64 && probes.iter().all(|p| p.0.len() <= 64) {
            let modes = vec![ModeSpec {
                name: "INITIAL".into(),
                pats: pats
                    .iter()
                    .map(|p| PatSpec {
                        rx: crate::rx::parse_supported(p.pattern()),
                        tt: p.terminal_id(),
                        la: None,
                    })
                    .collect(),
                transitions: vec![],
            }];
            let c = Case { modes, ..Case::default() };
            let model = c.model();
            for (input, expected) in &probes {
                let text = crate::model::Text::new(input);
                let reference = reference_tokens(&model, 0, &text, 0, false);
                if &reference != expected {
                    crate::run::harness_error(&format!(
                        "C17 closed form disagrees with the reference tokenizer on {:?}: {:?} vs {:?}",
                        input, expected, reference
                    ));
                }
            }
            st.count("closed_form_cross_checked");
        }
        Ok(st)
    }
}
