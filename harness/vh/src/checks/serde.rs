//! C16: scanner configurations and matches survive serialization unchanged.

use super::common::*;
use crate::automata::scanners_equivalent;
use crate::case::*;
use crate::dec::Dec;
use crate::gen::{self, GenParams};
use crate::model::Tok;
use crate::run::{guard, CaseStats, Check, CheckResult, Failure};
use crate::rx::Rx;
use scnr::{Lookahead, Match, MatchExt, MatchExtIterator, Pattern, Position, ScannerMode, Span};
use serde_json::{json, Value};

pub struct C16;

const README_JSON: &str = r#"[
  {
    "name": "INITIAL",
    "patterns": [
      { "pattern": "/\\*", "token_type": 1}
    ],
    "transitions": [[1, 1]]
  },
  {
    "name": "COMMENT",
    "patterns": [
      { "pattern": "\\*/", "token_type": 2},
      { "pattern": "[.\\r\\n]", "token_type": 3}
    ],
    "transitions": [[2, 0]]
  }
]"#;

fn gen_string(d: &mut Dec) -> String {
    if d.chance(3) {
        // long strings (beyond 255 / 65 535 bytes)
        let n = *d.pick(&[255usize, 256, 257, 1000, 65_536]);
        let unit = *d.pick(&["a", "\\", "\"", "é", "\n"]);
        return unit.repeat(n);
    }
    const SPECIAL: &[char] = &[
        '"', '\\', '\n', '\r', '\t', '\0', '\u{1}', '\u{1f}', '\u{7f}', '/', '\u{8}', '\u{c}', '😀',
        '\u{10FFFF}', '\u{2028}', 'é', '{', '}', '[', ']', ':', ',', ' ', 'a', 'b',
    ];
    let n = d.below(8);
    let mut s = String::new();
    for _ in 0..n {
        s.push(match d.weighted(&[6, 3, 1]) {
            0 => *d.pick(SPECIAL),
            1 => gen::gen_char(d),
            _ => gen::gen_any_char(d),
        });
    }
    s
}

fn gen_tt(d: &mut Dec) -> usize {
    match d.weighted(&[6, 1, 1, 1]) {
        0 => d.below(10),
        1 => u32::MAX as usize - d.below(2),
        2 => usize::MAX - d.below(2),
        _ => (1usize << 32) + d.below(1000),
    }
}

/// Independent JSON emitter in the README layout (lookahead omitted when absent).
fn emit_json(modes: &[ModeSpec], compact: bool) -> String {
    let v: Vec<Value> = modes.iter().map(|m| m.to_json()).collect();
    if compact {
        serde_json::to_string(&v).unwrap()
    } else {
        serde_json::to_string_pretty(&v).unwrap()
    }
}

impl Check for C16 {
    fn id(&self) -> &'static str {
        "C16"
    }
    fn rule(&self) -> &'static str {
        "case = list of scanner modes, either (raw) with arbitrary Unicode strings (quotes, backslashes, control and non-BMP characters) as names, patterns and lookahead patterns, lookaheads absent / positive / negative, empty pattern and transition lists, token types up to usize::MAX, or (buildable) a generated supported configuration with an input; oracle = from_str(to_string(x)) == x, to_string of the round-tripped value byte-equal, an independent emitter writing the README layout (pretty and compact) must deserialize to x, build outcome equal for x and its copy and, when both build, exact language equivalence per mode and lookahead plus equal token streams; Match, Span, Position and MatchExt values (from scanning and from hand-written JSON) round-trip; the README's JSON example deserializes to the two modes it describes; non-trivial = configuration with >= 1 lookahead, >= 1 transition and >= 1 string needing a JSON escape"
    }
    fn cases(&self, thorough: bool) -> usize {
        if thorough {
            40_000
        } else {
            3_000
        }
    }
    fn fixed_cases(&self, _thorough: bool) -> Vec<Case> {
        vec![Case {
            extra: json!({"kind": "readme"}),
            ..Case::default()
        }]
    }
    fn generate(&self, d: &mut Dec, thorough: bool) -> Case {
        if d.chance(150) {
            // raw strings
            let big = d.chance(8);
            let nm = if big { *d.pick(&[17usize, 65, 130]) } else { d.below(4) };
            let mut modes = Vec::new();
            for _ in 0..nm {
                let np = if big && d.chance(30) { *d.pick(&[65usize, 256, 300]) } else { d.below(4) };
                let mut pats = Vec::new();
                for _ in 0..np {
                    let la = match d.below(3) {
                        0 => None,
                        k => Some(LaSpec {
                            positive: k == 1,
                            rx: Rx::Raw(gen_string(d)),
                        }),
                    };
                    pats.push(PatSpec {
                        rx: Rx::Raw(gen_string(d)),
                        tt: gen_tt(d),
                        la,
                    });
                }
                let nt = d.below(3);
                let mut transitions: Vec<(usize, usize)> = Vec::new();
                for _ in 0..nt {
                    let t = gen_tt(d);
                    if transitions.iter().all(|x| x.0 != t) {
                        transitions.push((t, d.below(5)));
                    }
                }
                transitions.sort_unstable();
                modes.push(ModeSpec {
                    name: gen_string(d),
                    pats,
                    transitions,
                });
            }
            Case {
                modes,
                extra: json!({"kind": "raw"}),
                ..Case::default()
            }
        } else {
            let p = GenParams {
                max_pats: 3,
                max_depth: 3,
                ..GenParams::for_tier(thorough)
            }
            .with_lookaheads(70)
            .with_modes(3);
            let modes = gen::gen_modes(d, &p);
            let mut case = Case {
                modes,
                extra: json!({"kind": "buildable"}),
                ..Case::default()
            };
            let model = case.model();
            case.inputs.push(gen::gen_input(d, &model, 16));
            case
        }
    }
    fn check(&self, case: &Case) -> CheckResult {
        let mut st = CaseStats::default();
        if case.extra["kind"].as_str() == Some("readme") {
            let r = guard(|| serde_json::from_str::<Vec<ScannerMode>>(README_JSON));
            let got = match r {
                Err(p) => return Err(Failure::panic("c16.panic", "deserializing the README example panicked", p)),
                Ok(Err(e)) => {
                    return Err(Failure::new("c16.readme", format!("the README's JSON example is rejected: {}", e)))
                }
                Ok(Ok(v)) => v,
            };
            let expected = vec![
                ScannerMode::new("INITIAL", vec![Pattern::new("/\\*".to_string(), 1)], vec![(1, 1)]),
                ScannerMode::new(
                    "COMMENT",
                    vec![
                        Pattern::new("\\*/".to_string(), 2),
                        Pattern::new("[.\\r\\n]".to_string(), 3),
                    ],
                    vec![(2, 0)],
                ),
            ];
            if got != expected {
                return Err(Failure::new("c16.readme", "the README example deserializes to something else")
                    .exp_obs(&expected, &got));
            }
            st.count("readme_example");
            return Ok(st);
        }
        for m in &case.modes {
            if !m.transitions.windows(2).all(|w| w[0].0 < w[1].0) {
                return Ok(discard("discard_unsorted_transitions"));
            }
        }
        let buildable_kind = case.extra["kind"].as_str() == Some("buildable");
        if buildable_kind && domain_ok(case).is_err() {
            return Ok(discard("discard_domain"));
        }
        let x: Vec<ScannerMode> = case.scnr_modes();
        let r = guard(|| -> Result<(), Failure> {
            let s1 = serde_json::to_string(&x)
                .map_err(|e| Failure::new("c16.serialize", format!("to_string failed: {}", e)))?;
            let y: Vec<ScannerMode> = serde_json::from_str(&s1).map_err(|e| {
                Failure::new("c16.roundtrip", format!("from_str(to_string(x)) failed: {} on {}", e, s1))
            })?;
            if y != x {
                return Err(Failure::new("c16.roundtrip", "from_str(to_string(x)) != x").exp_obs(&x, &y));
            }
            let s2 = serde_json::to_string(&y).unwrap();
            if s1 != s2 {
                return Err(Failure::new("c16.roundtrip", "to_string of the round-tripped value differs").exp_obs(&s1, &s2));
            }
            for compact in [true, false] {
                let mine = emit_json(&case.modes, compact);
                let z: Vec<ScannerMode> = serde_json::from_str(&mine).map_err(|e| {
                    Failure::new("c16.layout", format!("the README layout is rejected: {} on {}", e, mine))
                })?;
                if z != x {
                    return Err(Failure::new("c16.layout", "the README layout deserializes to a different configuration")
                        .exp_obs(&x, &z));
                }
            }
            // pattern and lookahead alone
            for m in &case.modes {
                for p in &m.pats {
                    let sp = p.to_scnr();
                    let back: Pattern = serde_json::from_str(&serde_json::to_string(&sp).unwrap())
                        .map_err(|e| Failure::new("c16.roundtrip", format!("Pattern does not round-trip: {}", e)))?;
                    if back != sp {
                        return Err(Failure::new("c16.roundtrip", "Pattern round-trip differs").exp_obs(&sp, &back));
                    }
                    if let Some(la) = sp.lookahead() {
                        let back: Lookahead = serde_json::from_str(&serde_json::to_string(la).unwrap())
                            .map_err(|e| Failure::new("c16.roundtrip", format!("Lookahead does not round-trip: {}", e)))?;
                        if &back != la {
                            return Err(Failure::new("c16.roundtrip", "Lookahead round-trip differs").exp_obs(la, &back));
                        }
                    }
                }
            }
            Ok(())
        });
        match r {
            Err(p) => return Err(Failure::panic("c16.panic", "serialization panicked", p)),
            Ok(Err(f)) => return Err(f),
            Ok(Ok(())) => {}
        }
        let has_la = case.modes.iter().any(|m| m.pats.iter().any(|p| p.la.is_some()));
        let has_tr = case.modes.iter().any(|m| !m.transitions.is_empty());
        let json_text = emit_json(&case.modes, true);
        let needs_escape = json_text.contains('\\');
        st.flag("with_lookahead", has_la);
        st.flag("with_transition", has_tr);
        st.flag("with_json_escape", needs_escape);
        st.flag("kind_raw", !buildable_kind);
        st.flag("kind_buildable", buildable_kind);
        st.flag("empty_mode_list", case.modes.is_empty());
        st.nontrivial = has_la && has_tr && needs_escape;

        // behaviour of the rebuilt scanner
        // (building is only attempted for configurations of ordinary size: a 65 536-character
        // pattern or hundreds of modes would cost minutes and is not what C16 is about)
        let buildable_size = case.modes.len() <= 8
            && case.modes.iter().all(|m| {
                m.pats.len() <= 8
                    && m.pats.iter().all(|p| {
                        crate::rx::print(&p.rx).len() <= 300
                            && p.la.as_ref().is_none_or(|l| crate::rx::print(&l.rx).len() <= 300)
                    })
            });
        st.flag("beyond_buildable_size", !buildable_size);
        if buildable_size && !case.modes.is_empty() && case.modes.iter().all(|m| m.transitions.iter().all(|t| t.1 < case.modes.len())) {
            let y: Vec<ScannerMode> = serde_json::from_str(&serde_json::to_string(&x).unwrap()).unwrap();
            let r = guard(|| {
                (
                    scnr::ScannerBuilder::new().add_scanner_modes(&x).build_uncached(),
                    scnr::ScannerBuilder::new().add_scanner_modes(&y).build_uncached(),
                )
            });
            match r {
                Err(p) => {
                    if buildable_kind {
                        return Err(Failure::panic("c16.panic", "building panicked", p));
                    }
                    // raw strings: panics of build are C15's business
                    st.count("raw_build_panicked");
                }
                Ok((Ok(a), Ok(b))) => {
                    st.count("both_build");
                    match guard(|| scanners_equivalent(&a, &b)) {
                        Err(p) => return Err(Failure::panic("c16.panic", "dumping panicked", p)),
                        Ok(Err(e)) => {
                            return Err(Failure::new(
                                "c16.behaviour",
                                format!("the scanner built from the round-tripped configuration is not equivalent: {}", e),
                            ))
                        }
                        Ok(Ok(n)) => st.add("product_states", n as u64),
                    }
                    for input in &case.inputs {
                        let r = guard(|| {
                            let ta: Vec<MatchExt> = a.find_iter(input).with_positions().collect();
                            let tb: Vec<MatchExt> = b.find_iter(input).with_positions().collect();
                            (ta, tb)
                        });
                        let (ta, tb) = match r {
                            Err(_) => {
                                st.count("scan_panicked");
                                continue;
                            }
                            Ok(x) => x,
                        };
                        if ta != tb {
                            return Err(Failure::new("c16.behaviour", "token streams differ after the round trip").exp_obs(&ta, &tb));
                        }
                        // MatchExt / Match / Span / Position values from scanning
                        for me in &ta {
                            let js = serde_json::to_string(me).unwrap();
                            let back: Result<MatchExt, _> = serde_json::from_str(&js);
                            if back.as_ref().ok() != Some(me) {
                                return Err(Failure::new("c16.match_roundtrip", "MatchExt does not round-trip").exp_obs(me, (&js, back.ok())));
                            }
                            let m = Match::new(me.token_type(), me.span());
                            let back: Result<Match, _> = serde_json::from_str(&serde_json::to_string(&m).unwrap());
                            if back.as_ref().ok() != Some(&m) {
                                return Err(Failure::new("c16.match_roundtrip", "Match does not round-trip").exp_obs(m, back.ok()));
                            }
                            // hand-written JSON in field order of the documentation
                            let hand = format!(
                                "{{\"token_type\":{},\"span\":{{\"start\":{},\"end\":{}}},\"start_position\":{{\"line\":{},\"column\":{}}},\"end_position\":{{\"line\":{},\"column\":{}}}}}",
                                me.token_type(), me.start(), me.end(),
                                me.start_position().line, me.start_position().column,
                                me.end_position().line, me.end_position().column
                            );
                            let back: Result<MatchExt, _> = serde_json::from_str(&hand);
                            if back.as_ref().ok() != Some(me) {
                                return Err(Failure::new("c16.match_roundtrip", "hand-written MatchExt JSON is not read back as the value").exp_obs(me, (&hand, back.ok())));
                            }
                            st.count("match_values");
                        }
                        let _ = Tok { tt: 0, start: 0, end: 0 };
                    }
                }
                Ok((Err(_), Err(_))) => st.count("neither_builds"),
                Ok((ra, rb)) => {
                    return Err(Failure::new("c16.behaviour", "only one of original and round-tripped configuration builds")
                        .exp_obs(ra.is_ok(), rb.is_ok()));
                }
            }
        }
        // plain values with extreme numbers
        let r = guard(|| -> Result<(), Failure> {
            // MatchExt written by hand with numbers beyond 2^53 and at the top of the range
            for (tt, a, b, l, c) in [
                ((1usize << 53) + 1, 0usize, 1usize, 1usize, 1usize),
                (usize::MAX - 1, usize::MAX - 3, usize::MAX - 2, (1 << 53) + 3, usize::MAX - 1),
                (u32::MAX as usize + 7, (1 << 32) + 1, (1 << 32) + 9, u32::MAX as usize + 1, 65_537),
            ] {
                let hand = format!(
                    "{{\"token_type\":{},\"span\":{{\"start\":{},\"end\":{}}},\"start_position\":{{\"line\":{},\"column\":{}}},\"end_position\":{{\"line\":{},\"column\":{}}}}}",
                    tt, a, b, l, c, l, c + 1
                );
                let me: MatchExt = serde_json::from_str(&hand)
                    .map_err(|e| Failure::new("c16.match_roundtrip", format!("hand-written MatchExt {} is rejected: {}", hand, e)))?;
                if me.token_type() != tt
                    || me.start() != a
                    || me.end() != b
                    || me.start_position().line != l
                    || me.start_position().column != c
                    || me.end_position().column != c + 1
                {
                    return Err(Failure::new("c16.match_roundtrip", "hand-written MatchExt JSON is not read back as written").exp_obs(&hand, me));
                }
                let again = serde_json::to_string(&me).unwrap();
                let back: MatchExt = serde_json::from_str(&again)
                    .map_err(|e| Failure::new("c16.match_roundtrip", format!("MatchExt does not round-trip: {}", e)))?;
                if back != me {
                    return Err(Failure::new("c16.match_roundtrip", "MatchExt does not round-trip").exp_obs(me, back));
                }
            }
            for (a, b) in [(0usize, 0usize), (0, usize::MAX), (usize::MAX - 1, usize::MAX), (7, 3)] {
                let sp = Span::new(a, b);
                let back: Span = serde_json::from_str(&serde_json::to_string(&sp).unwrap())
                    .map_err(|e| Failure::new("c16.match_roundtrip", format!("Span: {}", e)))?;
                if back != sp {
                    return Err(Failure::new("c16.match_roundtrip", "Span does not round-trip").exp_obs(sp, back));
                }
                let m = Match::new(b, sp);
                let back: Match = serde_json::from_str(&serde_json::to_string(&m).unwrap())
                    .map_err(|e| Failure::new("c16.match_roundtrip", format!("Match: {}", e)))?;
                if back != m {
                    return Err(Failure::new("c16.match_roundtrip", "Match does not round-trip").exp_obs(m, back));
                }
                let p = Position::new(a.max(1), b.max(1));
                let back: Position = serde_json::from_str(&serde_json::to_string(&p).unwrap())
                    .map_err(|e| Failure::new("c16.match_roundtrip", format!("Position: {}", e)))?;
                if back != p {
                    return Err(Failure::new("c16.match_roundtrip", "Position does not round-trip").exp_obs(p, back));
                }
            }
            Ok(())
        });
        match r {
            Err(p) => return Err(Failure::panic("c16.panic", "serializing plain values panicked", p)),
            Ok(Err(f)) => return Err(f),
            Ok(Ok(())) => {}
        }
        Ok(st)
    }
}
