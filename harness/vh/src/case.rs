//! The generic, self-contained test case: configuration, input(s), operation history. It is what
//! generators produce, what checks consume, what the shrinker edits and what replay files hold.

use crate::model::{Model, ModeM, PatM, Preds};
use crate::rx::{self, Rx};
use serde::{Deserialize, Serialize};
use serde_json::{json, Value};

#[derive(Debug, Clone, PartialEq, Eq, Hash)]
pub struct LaSpec {
    pub positive: bool,
    pub rx: Rx,
}

#[derive(Debug, Clone, PartialEq, Eq, Hash)]
pub struct PatSpec {
    pub rx: Rx,
    pub tt: usize,
    pub la: Option<LaSpec>,
}

#[derive(Debug, Clone, PartialEq, Eq, Hash)]
pub struct ModeSpec {
    pub name: String,
    pub pats: Vec<PatSpec>,
    pub transitions: Vec<(usize, usize)>,
}

#[derive(Debug, Clone, PartialEq, Eq, Hash, Serialize, Deserialize)]
#[serde(tag = "op", rename_all = "snake_case")]
pub enum Op {
    Next,
    PeekN { n: usize },
    SetOffset { o: usize },
    /// fresh iterator with_offset(o) replacing iterator `it`
    WithOffset { o: usize },
    /// the consuming `with_offset(o)` applied to the iterator in use: `it = it.with_offset(o)`
    RebaseWithOffset { o: usize },
    /// advance_to(end of the k-th match (0-based) of the immediately preceding peek_n(n))
    PeekAdvance { n: usize, k: usize },
    SetMode { m: usize },
    CurrentMode,
    ModeName { i: usize },
    Position { o: usize },
    Exhaust,
    /// Scanner::set_mode on scanner `s` (C06, C12)
    ScannerSetMode { s: usize, m: usize },
    /// create a new iterator `it` from scanner `s` over input `inp`
    Create { s: usize, inp: usize },
    Drop,
    /// operation on iterator `it` (C12): wraps another op
    On { it: usize, inner: Box<Op> },
}

#[derive(Debug, Clone, PartialEq, Eq, Hash, Default)]
pub struct Case {
    pub modes: Vec<ModeSpec>,
    /// build through add_patterns (single mode, token type = index)
    pub add_patterns: bool,
    pub inputs: Vec<String>,
    pub start_offset: Option<usize>,
    /// apply start_offset with set_offset after consuming this many tokens instead of with_offset
    pub offset_after: Option<usize>,
    pub ops: Vec<Op>,
    /// free-form extra payload of a check (class expression, family parameters, build sequence...)
    pub extra: Value,
}

impl PatSpec {
    pub fn to_scnr(&self) -> scnr::Pattern {
        let p = scnr::Pattern::new(rx::print(&self.rx), self.tt);
        match &self.la {
            Some(la) => p.with_lookahead(scnr::Lookahead::new(la.positive, rx::print(&la.rx))),
            None => p,
        }
    }
    fn to_json(&self) -> Value {
        let mut v = json!({"pattern": rx::print(&self.rx), "token_type": self.tt});
        if let Some(la) = &self.la {
            v["lookahead"] = json!({"is_positive": la.positive, "pattern": rx::print(&la.rx)});
        }
        v
    }
}

fn parse_or_raw(s: &str) -> Rx {
    match rx::parse(s) {
        rx::ParseOutcome::Ok(r) => r,
        _ => Rx::Raw(s.to_string()),
    }
}

impl ModeSpec {
    pub fn to_scnr(&self) -> scnr::ScannerMode {
        scnr::ScannerMode::new(
            &self.name,
            self.pats.iter().map(|p| p.to_scnr()).collect::<Vec<_>>(),
            self.transitions.clone(),
        )
    }
    pub fn to_json(&self) -> Value {
        json!({
            "name": self.name,
            "patterns": self.pats.iter().map(|p| p.to_json()).collect::<Vec<_>>(),
            "transitions": self.transitions.iter().map(|(t, m)| json!([t, m])).collect::<Vec<_>>(),
        })
    }
    pub fn from_json(v: &Value) -> Result<ModeSpec, String> {
        let name = v["name"].as_str().ok_or("mode without name")?.to_string();
        let mut pats = Vec::new();
        for p in v["patterns"].as_array().ok_or("mode without patterns")? {
            let src = p["pattern"].as_str().ok_or("pattern without text")?;
            let tt = p["token_type"].as_u64().ok_or("pattern without token_type")? as usize;
            let la = match p.get("lookahead") {
                Some(l) if !l.is_null() => Some(LaSpec {
                    positive: l["is_positive"].as_bool().ok_or("lookahead polarity")?,
                    rx: parse_or_raw(l["pattern"].as_str().ok_or("lookahead pattern")?),
                }),
                _ => None,
            };
            pats.push(PatSpec {
                rx: parse_or_raw(src),
                tt,
                la,
            });
        }
        let mut transitions = Vec::new();
        if let Some(ts) = v["transitions"].as_array() {
            for t in ts {
                transitions.push((
                    t[0].as_u64().ok_or("transition token type")? as usize,
                    t[1].as_u64().ok_or("transition mode")? as usize,
                ));
            }
        }
        Ok(ModeSpec {
            name,
            pats,
            transitions,
        })
    }
}

impl Case {
    pub fn scnr_modes(&self) -> Vec<scnr::ScannerMode> {
        self.modes.iter().map(|m| m.to_scnr()).collect()
    }

    pub fn pattern_strings(&self) -> Vec<String> {
        self.modes[0].pats.iter().map(|p| rx::print(&p.rx)).collect()
    }

    /// The builder filled through the different entry points (all at once, one by one, or mixed),
    /// chosen by the shape of the configuration so that every entry point is exercised.
    fn builder(&self) -> scnr::ScannerBuilder {
        let modes = self.scnr_modes();
        let total_pats: usize = self.modes.iter().map(|m| m.pats.len()).sum();
        match total_pats % 3 {
            0 => scnr::ScannerBuilder::new().add_scanner_modes(&modes),
            1 => {
                let mut b = scnr::ScannerBuilder::new();
                for m in modes {
                    b = b.add_scanner_mode(m);
                }
                b
            }
            _ => {
                let h = modes.len() / 2;
                let mut b = scnr::ScannerBuilder::new().add_scanner_modes(&modes[..h]);
                for m in modes[h..].iter().cloned() {
                    b = b.add_scanner_mode(m);
                }
                b
            }
        }
    }

    /// Builds the scanner the way the case prescribes, without the cache.
    pub fn build_uncached(&self) -> scnr::Result<scnr::Scanner> {
        self.builder().build_uncached()
    }

    /// Builds the scanner the way the case prescribes (add_patterns or modes), through the
    /// public default path (`build`, i.e. with the cache).
    pub fn build(&self) -> scnr::Result<scnr::Scanner> {
        if self.add_patterns {
            scnr::ScannerBuilder::new()
                .add_patterns(self.pattern_strings())
                .build()
        } else {
            self.builder().build()
        }
    }

    pub fn model(&self) -> Model {
        let mut preds = Preds::default();
        let mut modes = Vec::new();
        for m in &self.modes {
            let mut pats = Vec::new();
            for p in &m.pats {
                pats.push(PatM {
                    m: crate::model::compile(&p.rx, &mut preds),
                    tt: p.tt,
                    la: p
                        .la
                        .as_ref()
                        .map(|l| (l.positive, crate::model::compile(&l.rx, &mut preds))),
                });
            }
            modes.push(ModeM {
                name: m.name.clone(),
                pats,
                transitions: m.transitions.clone(),
            });
        }
        Model { preds, modes }
    }

    pub fn has_raw(&self) -> bool {
        fn raw(r: &Rx) -> bool {
            match r {
                Rx::Raw(_) => true,
                Rx::Concat(v) | Rx::Alt(v) => v.iter().any(raw),
                Rx::Repeat(i, ..) | Rx::Group(i, _) => raw(i),
                _ => false,
            }
        }
        self.modes.iter().any(|m| {
            m.pats
                .iter()
                .any(|p| raw(&p.rx) || p.la.as_ref().is_some_and(|l| raw(&l.rx)))
        })
    }

    pub fn to_json(&self) -> Value {
        let mut v = json!({
            "modes": self.modes.iter().map(|m| m.to_json()).collect::<Vec<_>>(),
        });
        if self.add_patterns {
            v["add_patterns"] = json!(true);
        }
        if !self.inputs.is_empty() && self.extra.get("all_scalars").is_none() {
            // (the 4.4 MB string of all scalar values is restored from the flag)
            v["inputs"] = json!(self.inputs);
        }
        if let Some(o) = self.start_offset {
            v["start_offset"] = json!(o);
        }
        if let Some(o) = self.offset_after {
            v["offset_after"] = json!(o);
        }
        if !self.ops.is_empty() {
            v["ops"] = serde_json::to_value(&self.ops).unwrap();
        }
        if !self.extra.is_null() {
            v["extra"] = self.extra.clone();
        }
        v
    }

    pub fn from_json(v: &Value) -> Result<Case, String> {
        let mut modes = Vec::new();
        if let Some(ms) = v["modes"].as_array() {
            for m in ms {
                modes.push(ModeSpec::from_json(m)?);
            }
        }
        let inputs = match v.get("inputs") {
            Some(i) => serde_json::from_value(i.clone()).map_err(|e| e.to_string())?,
            None => {
                if v.get("extra").and_then(|e| e.get("all_scalars")).is_some() {
                    vec![crate::sets::all_scalars().to_string()]
                } else {
                    vec![]
                }
            }
        };
        let ops = match v.get("ops") {
            Some(i) => serde_json::from_value(i.clone()).map_err(|e| e.to_string())?,
            None => vec![],
        };
        Ok(Case {
            modes,
            add_patterns: v["add_patterns"].as_bool().unwrap_or(false),
            inputs,
            start_offset: v["start_offset"].as_u64().map(|x| x as usize),
            offset_after: v["offset_after"].as_u64().map(|x| x as usize),
            ops,
            extra: v.get("extra").cloned().unwrap_or(Value::Null),
        })
    }

    pub fn input(&self) -> &str {
        self.inputs.first().map(|s| s.as_str()).unwrap_or("")
    }
}
