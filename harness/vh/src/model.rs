//! Reference model: set-based regex matcher and the longest-match / trailing-context tokenizer.
//! Written from the property statements; shares no code with scnr's NFA/DFA construction.

use crate::rx::*;
use crate::sets::{self, BitSet};
use std::collections::HashMap;
use std::sync::Arc;

// --- character predicates ---------------------------------------------------------------------

#[derive(Debug, Clone, PartialEq, Eq, Hash)]
pub enum PredSrc {
    Lit(char),
    Dot,
    Class(Class),
}

#[derive(Debug, Clone)]
enum CItem {
    Lit(char),
    Dot,
    Range(char, char),
    Named(Arc<BitSet>, bool),
    Bracket(Box<CBracket>),
}

#[derive(Debug, Clone)]
enum CSet {
    Items(Vec<CItem>),
    BinOp(SetOp, Box<CSet>, Box<CSet>),
}

#[derive(Debug, Clone)]
struct CBracket {
    negated: bool,
    set: CSet,
}

#[derive(Debug, Clone)]
enum CPred {
    Lit(char),
    Dot,
    Named(Arc<BitSet>, bool),
    Bracket(CBracket),
}

fn c_item(it: &ClassItem) -> CItem {
    match it {
        ClassItem::Lit('.', crate::rx::LitForm::BareDot) => CItem::Dot,
        ClassItem::Lit(c, _) => CItem::Lit(*c),
        ClassItem::Range(a, b) => CItem::Range(*a, *b),
        ClassItem::Named(n, neg) => CItem::Named(sets::base_set(n), *neg),
        ClassItem::Bracket(b) => CItem::Bracket(Box::new(c_bracket(b))),
    }
}
fn c_set(s: &ClassSet) -> CSet {
    match s {
        ClassSet::Items(v) => CSet::Items(v.iter().map(c_item).collect()),
        ClassSet::BinOp(op, l, r) => CSet::BinOp(*op, Box::new(c_set(l)), Box::new(c_set(r))),
    }
}
fn c_bracket(b: &Bracket) -> CBracket {
    CBracket {
        negated: b.negated,
        set: c_set(&b.set),
    }
}
fn m_item(it: &CItem, c: char) -> bool {
    match it {
        CItem::Lit(l) => *l == c,
        CItem::Dot => sets::dot_matches(c),
        CItem::Range(a, b) => *a <= c && c <= *b,
        CItem::Named(s, neg) => s.get(c) != *neg,
        CItem::Bracket(b) => m_bracket(b, c),
    }
}
fn m_set(s: &CSet, c: char) -> bool {
    match s {
        CSet::Items(v) => v.iter().any(|it| m_item(it, c)),
        CSet::BinOp(op, l, r) => {
            let (a, b) = (m_set(l, c), m_set(r, c));
            match op {
                SetOp::Intersection => a && b,
                SetOp::Difference => a && !b,
                SetOp::SymDiff => a != b,
            }
        }
    }
}
fn m_bracket(b: &CBracket, c: char) -> bool {
    m_set(&b.set, c) != b.negated
}

#[derive(Debug, Default, Clone)]
pub struct Preds {
    pub srcs: Vec<PredSrc>,
    compiled: Vec<CPred>,
    index: HashMap<PredSrc, usize>,
}

impl Preds {
    pub fn intern(&mut self, src: PredSrc) -> usize {
        if let Some(i) = self.index.get(&src) {
            return *i;
        }
        let c = match &src {
            PredSrc::Lit(c) => CPred::Lit(*c),
            PredSrc::Dot => CPred::Dot,
            PredSrc::Class(Class::Named(n, neg)) => CPred::Named(sets::base_set(n), *neg),
            PredSrc::Class(Class::Bracket(b)) => CPred::Bracket(c_bracket(b)),
        };
        let id = self.srcs.len();
        self.index.insert(src.clone(), id);
        self.srcs.push(src);
        self.compiled.push(c);
        id
    }
    #[inline]
    pub fn matches(&self, id: usize, c: char) -> bool {
        match &self.compiled[id] {
            CPred::Lit(l) => *l == c,
            CPred::Dot => sets::dot_matches(c),
            CPred::Named(s, neg) => s.get(c) != *neg,
            CPred::Bracket(b) => m_bracket(b, c),
        }
    }
    pub fn len(&self) -> usize {
        self.srcs.len()
    }
    pub fn is_empty(&self) -> bool {
        self.srcs.is_empty()
    }
    /// The full set of a predicate (used for atoms).
    pub fn bitset(&self, id: usize) -> BitSet {
        match &self.srcs[id] {
            PredSrc::Lit(c) => {
                let mut s = BitSet::empty();
                s.set(*c);
                s
            }
            PredSrc::Dot => {
                let mut s = BitSet::full();
                // remove \n and \r
                let mut nl = BitSet::empty();
                nl.set('\n');
                nl.set('\r');
                s.andnot_with(&nl);
                s
            }
            PredSrc::Class(c) => sets::class_set(c),
        }
    }
}

// --- matcher ------------------------------------------------------------------------------------

#[derive(Debug, Clone, PartialEq, Eq, Hash, PartialOrd, Ord)]
pub enum M {
    Empty,
    Char(usize),
    Concat(Vec<M>),
    Alt(Vec<M>),
    Repeat(Box<M>, u32, Option<u32>),
}

pub fn compile(rx: &Rx, preds: &mut Preds) -> M {
    match rx {
        Rx::Empty => M::Empty,
        Rx::Lit(c, _) => M::Char(preds.intern(PredSrc::Lit(*c))),
        Rx::Dot => M::Char(preds.intern(PredSrc::Dot)),
        Rx::Class(c) => M::Char(preds.intern(PredSrc::Class(c.clone()))),
        Rx::Concat(v) => M::Concat(v.iter().map(|x| compile(x, preds)).collect()),
        Rx::Alt(v) => M::Alt(v.iter().map(|x| compile(x, preds)).collect()),
        Rx::Repeat(inner, a, b) => M::Repeat(Box::new(compile(inner, preds)), *a, *b),
        Rx::Group(inner, _) => compile(inner, preds),
        Rx::Raw(s) => crate::run::harness_error(&format!("reference asked to match Raw({:?})", s)),
    }
}

/// A set of positions 0..=n, kept as a sorted vector (the sets are tiny in practice, and inputs
/// may be thousands of characters long).
#[derive(Clone, PartialEq, Eq, Debug, Default)]
pub struct Pos {
    v: Vec<u32>,
}

impl Pos {
    pub fn new(_n: usize) -> Self {
        Pos { v: Vec::new() }
    }
    pub fn single(_n: usize, p: usize) -> Self {
        Pos { v: vec![p as u32] }
    }
    /// insert keeping the order (positions are mostly appended in ascending order)
    #[inline]
    pub fn insert(&mut self, p: usize) {
        let p = p as u32;
        match self.v.last() {
            None => self.v.push(p),
            Some(l) if *l < p => self.v.push(p),
            Some(l) if *l == p => {}
            _ => {
                if let Err(i) = self.v.binary_search(&p) {
                    self.v.insert(i, p);
                }
            }
        }
    }
    #[inline]
    pub fn contains(&self, p: usize) -> bool {
        self.v.binary_search(&(p as u32)).is_ok()
    }
    pub fn is_empty(&self) -> bool {
        self.v.is_empty()
    }
    /// union; returns true if something new was added
    pub fn union_with(&mut self, o: &Pos) -> bool {
        if o.v.is_empty() {
            return false;
        }
        if self.v.is_empty() {
            self.v = o.v.clone();
            return true;
        }
        let mut out = Vec::with_capacity(self.v.len() + o.v.len());
        let (a, b) = (&self.v, &o.v);
        let (mut i, mut j) = (0, 0);
        let mut changed = false;
        while i < a.len() || j < b.len() {
            if j >= b.len() || (i < a.len() && a[i] < b[j]) {
                out.push(a[i]);
                i += 1;
            } else if i >= a.len() || b[j] < a[i] {
                out.push(b[j]);
                j += 1;
                changed = true;
            } else {
                out.push(a[i]);
                i += 1;
                j += 1;
            }
        }
        self.v = out;
        changed
    }
    pub fn iter(&self) -> impl Iterator<Item = usize> + '_ {
        self.v.iter().map(|x| *x as usize)
    }
    pub fn max(&self) -> Option<usize> {
        self.v.last().map(|x| *x as usize)
    }
}

/// All positions reachable by matching `m` from any position in `from`.
pub fn step(m: &M, preds: &Preds, chars: &[char], from: &Pos) -> Pos {
    let n = chars.len();
    match m {
        M::Empty => from.clone(),
        M::Char(id) => {
            let mut out = Pos::new(n);
            for p in from.iter() {
                if p < n && preds.matches(*id, chars[p]) {
                    out.insert(p + 1);
                }
            }
            out
        }
        M::Concat(v) => {
            let mut cur = from.clone();
            for x in v {
                if cur.is_empty() {
                    break;
                }
                cur = step(x, preds, chars, &cur);
            }
            cur
        }
        M::Alt(v) => {
            let mut out = Pos::new(n);
            for x in v {
                out.union_with(&step(x, preds, chars, from));
            }
            out
        }
        M::Repeat(inner, min, max) => {
            let mut cur = from.clone();
            for _ in 0..*min {
                if cur.is_empty() {
                    return cur;
                }
                cur = step(inner, preds, chars, &cur);
            }
            let mut result = cur.clone();
            match max {
                None => {
                    // fixed point with a frontier of new positions only (a run of tens of
                    // thousands of characters must not cost a full union per position)
                    let mut seen = vec![false; n + 2];
                    let mut all: Vec<usize> = cur.iter().collect();
                    for p in &all {
                        seen[*p] = true;
                    }
                    let mut frontier = cur;
                    while !frontier.is_empty() {
                        let next = step(inner, preds, chars, &frontier);
                        let mut fresh = Pos::new(n);
                        for p in next.iter() {
                            if !seen[p] {
                                seen[p] = true;
                                fresh.insert(p);
                                all.push(p);
                            }
                        }
                        frontier = fresh;
                    }
                    all.sort_unstable();
                    result = Pos::new(n);
                    for p in all {
                        result.insert(p);
                    }
                }
                Some(mx) => {
                    for _ in *min..*mx {
                        if cur.is_empty() {
                            break;
                        }
                        cur = step(inner, preds, chars, &cur);
                        if !result.union_with(&cur) {
                            // nothing new can appear in later rounds only if cur ⊆ result held
                            // for the whole frontier; continue conservatively
                        }
                    }
                }
            }
            result
        }
    }
}

/// End positions (character indices) of all matches of `m` starting at character index `i`.
pub fn ends(m: &M, preds: &Preds, chars: &[char], i: usize) -> Pos {
    step(m, preds, chars, &Pos::single(chars.len(), i))
}

// --- tokenizer ------------------------------------------------------------------------------------

#[derive(Debug, Clone)]
pub struct PatM {
    pub m: M,
    pub tt: usize,
    pub la: Option<(bool, M)>,
}

#[derive(Debug, Clone)]
pub struct ModeM {
    pub name: String,
    pub pats: Vec<PatM>,
    pub transitions: Vec<(usize, usize)>,
}

#[derive(Debug, Clone, Default)]
pub struct Model {
    pub preds: Preds,
    pub modes: Vec<ModeM>,
}

#[derive(Debug, Clone, PartialEq, Eq)]
pub struct Cand {
    /// index of the pattern in the mode
    pub pat: usize,
    pub tt: usize,
    /// end (character index)
    pub end: usize,
    /// end + length of the longest positive-lookahead match (character index)
    pub extent: usize,
}

/// Statistics about one scan position, for the non-triviality counters.
#[derive(Debug, Clone, Default)]
pub struct PosInfo {
    /// number of (pattern, end) pairs where the pattern matches but the lookahead condition fails
    pub failed_lookahead: usize,
    /// some lookahead was decided at end of input
    pub lookahead_at_eoi: bool,
    /// number of distinct patterns having a satisfied candidate
    pub patterns_with_candidate: usize,
}

impl Model {
    pub fn transition(&self, mode: usize, tt: usize) -> Option<usize> {
        self.modes[mode]
            .transitions
            .iter()
            .find(|(t, _)| *t == tt)
            .map(|(_, m)| *m)
    }

    /// All (pattern, end) candidates at `pos` whose lookahead condition is satisfied.
    pub fn candidates(&self, mode: usize, chars: &[char], pos: usize) -> (Vec<Cand>, PosInfo) {
        let n = chars.len();
        let mut out = Vec::new();
        let mut info = PosInfo::default();
        for (j, p) in self.modes[mode].pats.iter().enumerate() {
            let e_set = ends(&p.m, &self.preds, chars, pos);
            let mut any = false;
            for e in e_set.iter() {
                if e <= pos {
                    continue;
                }
                let mut extent = e;
                if let Some((positive, la)) = &p.la {
                    if e == n {
                        info.lookahead_at_eoi = true;
                    }
                    let la_ends = ends(la, &self.preds, chars, e);
                    let longest = la_ends.iter().filter(|f| *f > e).max();
                    match (positive, longest) {
                        (true, Some(f)) => extent = f,
                        (true, None) => {
                            info.failed_lookahead += 1;
                            continue;
                        }
                        (false, Some(_)) => {
                            info.failed_lookahead += 1;
                            continue;
                        }
                        (false, None) => {}
                    }
                }
                any = true;
                out.push(Cand {
                    pat: j,
                    tt: p.tt,
                    end: e,
                    extent,
                });
            }
            if any {
                info.patterns_with_candidate += 1;
            }
        }
        (out, info)
    }

    /// The acceptable winners among the candidates (C01/C05): maximal extent, then the pattern
    /// listed first; if that pattern has several ends with the maximal extent all are acceptable.
    pub fn winners(cands: &[Cand]) -> Vec<Cand> {
        let Some(best_extent) = cands.iter().map(|c| c.extent).max() else {
            return vec![];
        };
        let best_pat = cands
            .iter()
            .filter(|c| c.extent == best_extent)
            .map(|c| c.pat)
            .min()
            .unwrap();
        cands
            .iter()
            .filter(|c| c.extent == best_extent && c.pat == best_pat)
            .cloned()
            .collect()
    }
}

/// Character table of an input: characters and the byte offset of each character index.
#[derive(Debug, Clone)]
pub struct Text {
    pub chars: Vec<char>,
    /// offs[i] = byte offset of character i; offs[n] = byte length
    pub offs: Vec<usize>,
}

impl Text {
    pub fn new(s: &str) -> Self {
        let mut chars = Vec::new();
        let mut offs = Vec::new();
        for (i, c) in s.char_indices() {
            chars.push(c);
            offs.push(i);
        }
        offs.push(s.len());
        Text { chars, offs }
    }
    pub fn len(&self) -> usize {
        self.chars.len()
    }
    pub fn is_empty(&self) -> bool {
        self.chars.is_empty()
    }
    pub fn byte_len(&self) -> usize {
        *self.offs.last().unwrap()
    }
    /// character index of a byte offset that lies on a character boundary
    pub fn char_index(&self, byte: usize) -> Option<usize> {
        self.offs.binary_search(&byte).ok()
    }
}

/// One reference token: byte span and token type.
#[derive(Debug, Clone, Copy, PartialEq, Eq, Hash, serde::Serialize, serde::Deserialize)]
pub struct Tok {
    pub tt: usize,
    pub start: usize,
    pub end: usize,
}

impl Tok {
    pub fn of(m: &scnr::Match) -> Self {
        Tok {
            tt: m.token_type(),
            start: m.start(),
            end: m.end(),
        }
    }
}
