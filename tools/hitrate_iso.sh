#!/bin/bash
# tools/hitrate_iso.sh <seed id> [<Cnn>] : like hitrate.sh but in the scratch lane /tmp/iso (worktree of
# /repo's HEAD + copy of the harness), for use while /repo is busy. Development tool.
set -u
ID="$1"; PROP="${2:-${ID:0:3}}"
mkdir -p /tmp/iso
if [ ! -d /tmp/iso/repo ]; then git -C /repo worktree add -q --detach /tmp/iso/repo HEAD || exit 2; fi
git -C /tmp/iso/repo checkout -q --detach "$(git -C /repo rev-parse HEAD)" 2>/dev/null
git -C /tmp/iso/repo checkout -q -- . ; git -C /tmp/iso/repo clean -fdq scnr/src scnr/tests
git -C /tmp/iso/repo apply /verif/seeded/$ID/patch.diff || exit 2
rsync -a --delete --exclude target --exclude fuzz /verif/harness/ /tmp/iso/harness/
sed -i 's#/repo/scnr#/tmp/iso/repo/scnr#' /tmp/iso/harness/vh/Cargo.toml /tmp/iso/harness/c14/Cargo.toml
cd /tmp/iso/harness && CARGO_NET_OFFLINE=true cargo build --release --offline -q -p vh 2>/dev/null || { echo "build failed"; exit 2; }
./target/release/vh $PROP hitrate ${VERIF_TIER:-quick} 2>/dev/null | cut -c1-${WIDTH:-400}
git -C /tmp/iso/repo checkout -q -- .
