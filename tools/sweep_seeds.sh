#!/bin/bash
# tools/sweep_seeds.sh [lanes]  : re-runs EVERY kept seeded change (seeded/<id>/patch.diff) against the
# quick tier of the check of its own property, in `lanes` isolated scratch lanes (worktree of /repo's
# HEAD + copy of the harness under /tmp/lanes/<n>), and writes seeded/sweep_results.tsv
# (id, property, outcome). Not used by any registered command; /repo itself is not touched.
set -u
LANES="${1:-4}"; FILTER="${2:-.}"   # second argument: regex on the seed id, e.g. "C0[23]"
ROOT=${LANES_ROOT:-/tmp/lanes}
mkdir -p $ROOT
ls -d /verif/seeded/C??? 2>/dev/null | xargs -n1 basename | grep -E "$FILTER" | sort > $ROOT/all.txt
split -n l/$LANES -d $ROOT/all.txt $ROOT/part.
lane() {
    n=$1; L=$ROOT/$n
    mkdir -p $L
    [ -d $L/repo ] || git -C /repo worktree add -q --detach $L/repo HEAD || exit 2
    rsync -a --delete --exclude target --exclude fuzz /verif/harness/ $L/harness/
    sed -i "s#/repo/scnr#$L/repo/scnr#" $L/harness/vh/Cargo.toml $L/harness/c14/Cargo.toml
    : > $L/results.tsv
    while read id; do
        prop=${id:0:3}
        git -C $L/repo checkout -q -- . ; git -C $L/repo clean -fdq scnr/src scnr/tests
        if ! git -C $L/repo apply /verif/seeded/$id/patch.diff 2>/dev/null; then echo -e "$id\t$prop\tPATCH-DOES-NOT-APPLY" >> $L/results.tsv; continue; fi
        if ! (cd $L/harness && CARGO_NET_OFFLINE=true cargo build --release --offline -q 2>$L/build.err); then
            if [ "$prop" = C14 ] && grep -qE "Send|Sync" $L/build.err; then echo -e "$id\t$prop\tVIOLATION(static)" >> $L/results.tsv; else echo -e "$id\t$prop\tBUILD-FAILED" >> $L/results.tsv; fi
            continue
        fi
        if [ "${MODE:-quick}" = hitrate ] && [ "$prop" != C14 ]; then
            # MODE=hitrate: number of failing generated cases of a whole quick run (no stop at the first)
            out=$(cd $L/harness && timeout 1800 ./target/release/vh $prop hitrate 2>/dev/null | grep -E "^HITRATE" | sed 's/.*cases=//')
            echo -e "$id\t$prop\tcases=$out" >> $L/results.tsv
            continue
        fi
        if [ "$prop" = C14 ]; then bin="./target/release/c14 quick"; else bin="./target/release/vh $prop quick"; fi
        out=$(cd $L/harness && VERIF_EVIDENCE_DIR=$L/evidence VERIF_REPLAY_DIR=$L/replays timeout 1800 $bin 2>/dev/null | grep -E "^(VIOLATION|SUMMARY)" | head -2 | tr '\n' ' ')
        case "$out" in
            *VIOLATION*) r=VIOLATION;;
            *violations=0*) r=MISSED;;
            *) r="NO-VERDICT";;
        esac
        echo -e "$id\t$prop\t$r" >> $L/results.tsv
    done < $ROOT/part.0$n
    git -C $L/repo checkout -q -- . ; git -C $L/repo clean -fdq scnr/src scnr/tests
}
for n in $(seq 0 $((LANES-1))); do lane $n & done
wait
if [ "$FILTER" = . ] && [ "${MODE:-quick}" = quick ]; then OUT=/verif/seeded/sweep_results.tsv; elif [ "${MODE:-quick}" = hitrate ]; then OUT=/verif/seeded/hitrates.tsv; else OUT=/tmp/sweep_partial.tsv; fi
cat $ROOT/*/results.tsv | sort > $OUT
for n in $(seq 0 $((LANES-1))); do git -C /repo worktree remove --force $ROOT/$n/repo; done
rm -rf $ROOT
awk -F'\t' '{c[$3]++} END {for (k in c) print k, c[k]}' $OUT; grep -v VIOLATION $OUT
