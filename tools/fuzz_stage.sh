#!/bin/bash
# tools/fuzz_stage.sh <Cnn> : coverage-guided campaign (libFuzzer via cargo-fuzz, ASan) for one
# property; cwd = /verif/harness. Budget: VERIF_FUZZ_SECONDS (default 150) wall-clock on 8 forks.
# A crash artifact is decoded, shrunk and reported by `vh <Cnn> --fuzz-artifact`.
set -u
ID="$1"; SEED="${VERIF_SEED:-1}"; SECS="${VERIF_FUZZ_SECONDS:-150}"
BIN=./target/release/vh
cd fuzz || exit 0
if ! cargo +nightly fuzz build prop > ../target/fuzz_build.log 2>&1; then
    echo "   WARNING: cargo-fuzz build not available; fuzz stage skipped (inconclusive)" 1>&2
    tail -3 ../target/fuzz_build.log 1>&2
    exit 0
fi
C=corpus/$ID-$$; A=artifacts/$ID-$$
rm -rf "$C" "$A"; mkdir -p "$C" "$A"
(cd .. && VERIF_SEED=$SEED $BIN gen-corpus fuzz/$C 12)
t0=$(date +%s)
VERIF_FUZZ_PROP=$ID cargo +nightly fuzz run prop "$C" -- -seed=$SEED -max_total_time=$SECS -len_control=0 -max_len=2048 -fork=8 -timeout=120 -ignore_crashes=0 -artifact_prefix=$A/ > ../target/fuzz_$ID.log 2>&1
t1=$(date +%s)
execs=$(grep -oE "#[0-9]+: cov" ../target/fuzz_$ID.log | tail -1 | grep -oE "[0-9]+")
cov=$(grep -oE "cov: [0-9]+" ../target/fuzz_$ID.log | tail -1 | grep -oE "[0-9]+")
units=$(ls "$C" | wc -l)
rc=0
for f in "$A"/crash-* "$A"/timeout-* "$A"/oom-*; do
    [ -e "$f" ] || continue
    # a unit that exceeded libFuzzer's per-input limit is replayed under a limit of its own: if the
    # replay does not finish either, the stage is inconclusive (exit 2), not a violation
    (cd .. && timeout 900 $BIN $ID --fuzz-artifact fuzz/$f); r=$?
    if [ $r -eq 124 ]; then echo "INCONCLUSIVE: replay of fuzz/$f did not finish within 900 s" 1>&2; rc=2; break; fi
    [ $r -ne 0 ] && rc=$r
    [ $rc -ne 0 ] && break
done
(cd .. && $BIN $ID --add-fuzz-evidence "{\"target\":\"prop\",\"engine\":\"libFuzzer -fork=8, ASan\",\"seconds\":$((t1-t0)),\"execs_done\":${execs:-0},\"coverage_edges\":${cov:-0},\"corpus_size\":$units,\"seed\":$SEED}")
echo "   fuzz $ID: ${execs:-0} executions, ${cov:-0} edges, corpus $units, $((t1-t0)) s" 1>&2
rm -rf "$C"
[ $rc -eq 0 ] && rm -rf "$A"
exit $rc
