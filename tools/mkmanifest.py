#!/usr/bin/env python3
"""Regenerates /verif/MANIFEST.json from the table below (single source for the per-check text)."""
import json, os, subprocess

HOOK_COMMITS = ["a31c321"]  # hooks; fix commits: 2f13293 bbf3167 cdae486 7808df8 c7ae102 872f7eb a82d6c9 ba93a14 8681ec9
C14_ENGINE = "c14"

CHECKS = {
 "C01": dict(cat="exploration", tech="property-based testing (seeded proptest choice streams + bounded-exhaustive tiny grammar) against an independent reference tokenizer",
   text="Generated pattern sets x inputs compared token-for-token with an independent set-based matcher and longest-match/first-listed tokenizer; plus all pattern pairs over a tiny grammar x all inputs over {a,b,c} up to length 5. Sampling, not proof: exact only for the cases explored.",
   note="trusts regex-syntax's parser (shared with scnr) for the printer round-trip; named-class contents beyond ASCII are measured on the implementation (wording of C08)", ref="5 C01"),
 "C02": dict(cat="translation_validation", tech="generated programs; per program exact language equality by product exploration (compiled automaton x Brzozowski derivatives of the source patterns) over the alphabet atoms",
   text="Per generated / enumerated / corpus program the compiled automaton of every mode and lookahead (feature-gated dump) is compared with the derivative automaton of the source patterns for ALL strings: breadth-first exploration of the product over the partition of all 1 112 064 scalar values induced by the scanner's registered classes (own predicate) and the reference classes. Exact per program; programs are sampled.",
   note="trusts the dump hook (field-by-field copy) and regex-syntax's parser; a shortest witness is re-confirmed by direct simulation and by the set-based matcher, otherwise the run aborts as a harness error", ref="5 C02"),
 "C03": dict(cat="translation_validation", tech="generated programs; per recorded (before, after) minimizer pair exact language equality by product exploration over the alphabet atoms",
   text="Every Minimizer::minimize call during the build of each program is recorded (feature-gated); per pair the accepted token-type sets are compared after every string including the empty one (start = state 0 on both sides), and after.states <= before.states.",
   note="trusts the recorder hook; classes are evaluated with the built scanner's own predicate", ref="5 C03"),
 "C04": dict(cat="exploration", tech="property-based testing against a reference candidate-set oracle (soundness + completeness walk)",
   text="At every scan position the reference candidate set (pattern matches and lookahead condition holds) is computed; every reported token must be a candidate starting at the first position with a non-empty set; includes start offsets via with_offset/set_offset.",
   note="lookahead patterns are non-nullable by construction; offsets on character boundaries", ref="5 C04"),
 "C05": dict(cat="exploration", tech="property-based testing against the reference trailing-context tokenizer",
   text="Every reported token must be an acceptable winner (max own length + longest positive lookahead, ties to the first-listed pattern, span and type from the same candidate); any panic is a violation.",
   note="when the winning pattern has several ends with the same extent all are accepted (statement does not order them)", ref="5 C05"),
 "C07": dict(cat="exploration", tech="property-based testing of stream invariants over arbitrary Unicode inputs and call histories (watchdog for non-termination)",
   text="Invariant over generated configurations (modes, lookaheads, nullable patterns), arbitrary scalar values and next/peek_n/set_mode histories: spans non-empty, in range, on boundaries, ordered; <= one token per char; None sticky; no panic; bounded number of next() calls.",
   note="a build error for a generated (supported) configuration is counted inconclusive here and judged by C15", ref="5 C07"),
 "C06": dict(cat="exploration", tech="model-based (stateful) property testing: generated call histories interpreted in lock-step with a mode-tracking model",
   text="Histories of next/peek_n/set_mode/current_mode/mode_name, Scanner::set_mode and fresh iterators over generated mode graphs; after every step current_mode() must equal the model's mode and every token must be a match of a pattern of the model's current mode.",
   note="tokens are judged by membership in the current mode's candidate set only (choice among candidates is C01/C05)", ref="5 C06"),
 "C08": dict(cat="exploration", tech="property-based testing of generated class expressions; per expression exhaustive enumeration of all 1 112 064 scalar values against a boolean reference evaluation",
   text="Per generated / corpus / fixed single-character pattern the scanner built from it is scanned over the string of ALL scalar values and the matched set is compared bit-for-bit with the boolean evaluation of the expression; exhaustive in the character dimension, sampled in the expression dimension.",
   note="base sets of named items are measured on the implementation when used alone (as C08 words it); ASCII ground truth of \\d \\s \\w and the complement laws are asserted independently; bare `.` inside brackets is outside the domain", ref="5 C08"),
 "C09": dict(cat="exploration", tech="model-based property testing: call histories against line/column recomputed from the text",
   text="Histories (next, set_offset to scanned offsets, exhaustion, position queries, peek/advance_to) on both the WithPositions adapter and a bare FindMatches; every start position exact, end positions and position(o) with the stated tolerance behind a line break.",
   note="resets only to offsets <= furthest consumed offset (the property's 'already scanned')", ref="5 C09"),
 "C10": dict(cat="exploration", tech="metamorphic property testing over call histories (suffix-scan twin driven in lock-step)",
   text="After every set_offset/with_offset (any boundary, 0, len, beyond) the iterator must behave exactly like a twin iterator over the suffix string in the same mode under the same subsequent calls (spans shifted); after peek_n+advance_to the twin consumes with next() instead and both must continue identically.",
   note="advance_to only with the end of a match of the immediately preceding peek_n; parser duty set_mode(target) applied when the skipped prefix contains the mode-switching token", ref="5 C10"),
 "C11": dict(cat="exploration", tech="metamorphic property testing over call histories (scout iterator for agreement, peek-free twin for purity)",
   text="peek_n results must equal what a scout iterator returns for the next calls of next() in the unchanged mode (stop at n / mode-switch token / end), with the prescribed classification and target mode; the same history without peeks on a twin must give identical tokens and modes.",
   note="when exactly n tokens were found and the last one switches modes both Matches and MatchesReachedModeSwitch are accepted (statement's outcomes overlap)", ref="5 C11"),
 "C12": dict(cat="exploration", tech="model-free metamorphic property testing over interleaved multi-iterator histories (isolated replay as oracle)",
   text="Interleaved histories over up to 2 scanners from build() (same cache entry), up to 6 iterators and 2-3 inputs; each iterator's own sub-history is replayed alone on a scanner from build_uncached() and every observation must be identical.",
   note="offsets are mapped onto character boundaries of the iterator's own input", ref="5 C12"),
 "C13": dict(cat="exploration", tech="differential property testing over generated build sequences (build() vs build_uncached()), near-identical key variants and failing builds",
   text="Sequences of 3-10 builds from a pool of a base configuration, near-identical variants (incl. one colliding under the cache map's hasher and twins that read the same in one-line text renderings of the configuration), an unrelated and failing configurations; every build() is compared with build_uncached(): outcome, mode names, token streams on probe inputs from all variants' languages, automaton dumps (class predicates on a probe set; exact language equivalence when dumps differ and for the last build of every fourth case).",
   note="mode names carry a per-execution nonce so executions never share cache entries; the process-wide cache cannot be reset", ref="5 C13"),
 "C14": dict(cat="exploration", engine="c14", tech="randomized stress of generated thread programs on real threads with seeded schedule perturbation against sequential execution; compile-time Send+Sync bound; thorough adds ThreadSanitizer and Miri many-seeds",
   text="Weakest claim of the set: schedules are sampled, not enumerated. 2-8 thread programs of cache builds (hits, misses, failing) and scans on a shared Arc<Scanner>, barrier-aligned, spin/yield perturbation, 20 repetitions with fresh cache keys per case; every observation must equal the sequential one; panics and no-progress (watchdog) are violations; the check binary only compiles if Scanner: Send + Sync.",
   note="the harness owns the schedule only under Miri (thorough, small fixed programs); a race needing one specific interleaving of the real RwLock is found only by luck or by TSan/Miri instrumentation", ref="5 C14, 8"),
 "C15": dict(cat="exploration", tech="property-based testing (token-level random strings and supported expressions with one planted unsupported construct) against a reference verdict classifier",
   text="Expected Ok/Err derived from regex-syntax's parse plus a walk of the whole AST; build must never panic, must reject syntax errors and documented-unsupported constructs anywhere in any mode or lookahead, must accept the supported subset; afterwards the process-wide cache must still serve a valid build.",
   note="Unicode classes with a plausible name may build or not (statement only fixes unknown/valued ones); shares regex-syntax's parser with scnr", ref="5 C15"),
 "C16": dict(cat="exploration", tech="round-trip property testing with an independent JSON emitter and exact automaton equivalence of the rebuilt scanner",
   text="from_str(to_string(x)) == x, byte-stable re-serialization, README layout written by an independent emitter accepted, equal build outcome, language-equivalent automata per mode and lookahead plus equal token streams for the rebuilt scanner; Match/MatchExt/Span/Position values round-trip; README example deserializes to its two modes.",
   note="configurations are constructed with sorted transitions (ScannerMode::new debug-asserts that)", ref="5 C16"),
 "C17": dict(cat="exploration", tech="property-based testing over parametrised families of large pattern sets against closed-form longest-match expectations",
   text="Quick: 24 generated and 24 fixed instances with up to 16 000 unminimized states (50x beyond the suite): lists, keyword sets, chains, counted repetitions that are the whole pattern, keyword pairs. Thorough: additionally fixed instances crossing 65 535 states (lists of 65 534 / 65 537 / 66 000 / 70 000 one-character patterns, all 182^2 two-letter keywords, x{66000}y, a{40000}); a failing fixed instance is reported at once. Build may return Err; a panic or a wrong token stream is a violation.",
   note="quick does not cross the 2^16 boundary (each crossing costs minutes; all build phases are quadratic); closed forms are cross-checked with the reference tokenizer on small instances", ref="5 C17"),
 "C18": dict(cat="fault_enumeration", tech="property-based testing: generated configurations exported, files parsed by a strict DOT parser and compared by content with the feature-gated automaton dump; enumerated unwritable-target faults",
   text="Exactly one well-formed file per mode; nodes = states, T<t> exactly on accepting non-start states, multiset of (source, class id, target) edges = transitions, one cluster per lookahead with T<t> and polarity containing its automaton; injected faults (missing folder, file as folder, directory as output file, over-long prefix) must give Err without panic.",
   note="colours, shapes, node names, titles and the class text before (C#id) are not asserted; mode names identifier-like; read-only folder fault not reachable as root", ref="5 C18"),
}

NOT_YET = {}

def main():
    here = os.path.dirname(os.path.dirname(os.path.abspath(__file__)))
    props = [json.loads(l) for l in open(os.path.join(here, "properties.jsonl"))]
    checks = []
    na = []
    for p in props:
        i = p["id"]
        if i in CHECKS:
            c = CHECKS[i]
            checks.append({
                "property_id": i,
                "quick_cmd": f"./check {i} quick",
                "thorough_cmd": f"./check {i} thorough",
                "evidence_file": f"/verif/evidence/{i}.json",
                "replay_cmd_template": f"./check {i} --replay {{path}}",
                "engine": c.get("engine", "vh"),
                "level_claimed": {"category": c["cat"], "text": c["text"], "design_ref": "DESIGN.md section " + c["ref"]},
                "level_note": c["note"],
                "technique": c["tech"],
            })
        else:
            na.append({"property_id": i, "reason": NOT_YET.get(i, "check under construction in this session; not claimed until its quick tier is silent on the unchanged tree (see DESIGN.md section 5)")})
    m = {
        "version": 1,
        "setup_cmd": "cd /verif/harness && CARGO_NET_OFFLINE=true cargo build --release --offline",
        "hooks": {
            "guard": "cargo feature `verif` of crate scnr",
            "enable": "the harness depends on scnr by path with features = [\"verif\"] (harness/vh/Cargo.toml); every ./check rebuilds it from /repo's working tree",
            "baseline_off_cmd": "cd /repo && cargo test --workspace --no-fail-fast --offline -- --test-threads 1",
            "source_commits": HOOK_COMMITS,
            "add_only": True,
        },
        "engines": [
            {"name": "c14", "path": "/verif/harness/c14", "serves_properties": ["C14"],
             "kind_free_text": "separate Rust binary (so that a Scanner that is not Send+Sync breaks only this check): thread-program generator and runner on top of the vh library; tools/c14_thorough.sh adds the ThreadSanitizer build and Miri many-seeds"},
            {"name": "vh", "path": "/verif/harness/vh", "serves_properties": sorted(k for k in CHECKS.keys() if k != "C14"),
             "kind_free_text": "Rust binary: seeded proptest TestRunner over byte choice streams decoded by hand-written generators, independent reference model (regex matcher, tokenizer, iterator model, derivative automata), structural shrinker, replay and evidence writer"},
        ],
        "checks": checks,
        "not_applicable": na,
        "notes": "Exit codes: 0 held, 1 violation (VIOLATION line), 2 the check could not run (harness self-test, build failure, watchdog). known_findings.json lists repaired defects (fixed:) and would list open ones (known).",
    }
    if not na:
        del m["not_applicable"]
    json.dump(m, open(os.path.join(here, "MANIFEST.json"), "w"), indent=1)
    print("MANIFEST.json:", len(checks), "checks,", len(na), "not applicable")

main()
