#!/bin/bash
# tools/try_seed_iso.sh <patch.diff> <Cnn> [<Cnn> ...]
# Like try_seed.sh but without touching /repo: a scratch worktree of /repo's HEAD under /tmp/iso/repo
# gets the patch, a scratch copy of the harness under /tmp/iso/harness is pointed at it. For use
# while a long run against /repo is in progress. Not used by any registered command.
set -u
PATCH="$1"; shift
mkdir -p /tmp/iso
if [ ! -d /tmp/iso/repo ]; then git -C /repo worktree add -q --detach /tmp/iso/repo HEAD || exit 2; fi
git -C /tmp/iso/repo checkout -q --detach "$(git -C /repo rev-parse HEAD)" 2>/dev/null
git -C /tmp/iso/repo checkout -q -- . ; git -C /tmp/iso/repo clean -fdq scnr/src scnr/tests
git -C /tmp/iso/repo apply "$PATCH" || { echo "patch does not apply"; exit 2; }
mkdir -p /tmp/iso/harness
rsync -a --delete --exclude target --exclude fuzz /verif/harness/ /tmp/iso/harness/
sed -i 's#/repo/scnr#/tmp/iso/repo/scnr#' /tmp/iso/harness/vh/Cargo.toml /tmp/iso/harness/c14/Cargo.toml
cd /tmp/iso/harness && CARGO_NET_OFFLINE=true cargo build --release --offline -q 2>/tmp/iso/build.err || { tail -5 /tmp/iso/build.err; echo "build failed"; exit 2; }
export VERIF_EVIDENCE_DIR=/tmp/iso/evidence
for id in "$@"; do
    if [ "$id" = "C14" ]; then bin="./target/release/c14 quick"; else bin="./target/release/vh $id quick"; fi
    out=$($bin 2>/dev/null | grep -E "^(VIOLATION|KNOWN-FINDING|SUMMARY)" | tr '\n' ' ')
    echo "$id $out"
done
git -C /tmp/iso/repo checkout -q -- . ; git -C /tmp/iso/repo clean -fdq scnr/src scnr/tests
