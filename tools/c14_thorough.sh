#!/bin/bash
# Thorough tier of C14 (cwd = /verif/harness): (1) the stress run with more cases, (2) the same
# binary under ThreadSanitizer, (3) fixed small thread programs under Miri with seeded preemptive
# schedules. A tool that cannot be built here only produces a warning (inconclusive stage).
set -u
export CARGO_NET_OFFLINE=true
SEED="${VERIF_SEED:-1}"
mkdir -p target/c14 ../replays/C14
rc=0
TSAN_STATE="not run"; MIRI_STATE="not run"
note_stage() {
    python3 - "$1" "$2" <<'PY'
import json, os, sys
d = os.environ.get("VERIF_EVIDENCE_DIR", "/verif/evidence")
p = os.path.join(d, "C14.json")
try:
    v = json.load(open(p))
    v["coverage"].setdefault("instrumented_stages", {})[sys.argv[1]] = sys.argv[2]
    json.dump(v, open(p, "w"), indent=1)
except Exception as e:
    print("   (could not annotate evidence: %s)" % e, file=sys.stderr)
PY
}

echo "== C14 thorough stage 1: stress on real threads" 1>&2
VERIF_TIER=thorough ./target/release/c14 thorough || rc=$?
[ $rc -ne 0 ] && exit $rc

echo "== C14 thorough stage 2: ThreadSanitizer" 1>&2
if RUSTFLAGS="-Zsanitizer=thread" cargo +nightly build -q -Zbuild-std --target x86_64-unknown-linux-gnu --release -p c14 --target-dir target/tsan 2> target/c14/tsan_build.err; then
    # the evidence of stage 1 must survive: TSan run writes to a scratch evidence dir
    TSAN_OPTIONS="halt_on_error=0 exitcode=66" VERIF_SCALE=0.25 VERIF_EVIDENCE_DIR=target/c14/tsan_evidence \
        ./target/tsan/x86_64-unknown-linux-gnu/release/c14 quick > target/c14/tsan.out 2> target/c14/tsan.err
    trc=$?
    if grep -q "ThreadSanitizer: data race\|ThreadSanitizer: lock-order-inversion" target/c14/tsan.err; then
        cp target/c14/tsan.err ../replays/C14/tsan_report.txt
        echo "VIOLATION property=C14 replay=/verif/replays/C14/tsan_report.txt"
        exit 1
    fi
    if grep -q "^VIOLATION" target/c14/tsan.out; then
        cat target/c14/tsan.out
        exit 1
    fi
    echo "   ThreadSanitizer run finished (exit $trc), no report" 1>&2
    note_stage tsan "quick-sized stress run (scale 0.25) of the c14 binary built with -Zsanitizer=thread -Zbuild-std: no data race / lock-order report"
else
    echo "   WARNING: ThreadSanitizer build not available here; stage skipped (inconclusive)" 1>&2
    note_stage tsan "skipped: build not available"
    tail -3 target/c14/tsan_build.err 1>&2
fi

echo "== C14 thorough stage 3: Miri, seeded schedules" 1>&2
if MIRIFLAGS="-Zmiri-many-seeds=0..16 -Zmiri-preemption-rate=0.05 -Zmiri-disable-isolation" \
     cargo +nightly miri run -q -p c14 --target-dir target/miri -- miri "$SEED" > target/c14/miri.out 2> target/c14/miri.err; then
    echo "   Miri: 16 seeds x fixed thread programs finished without report" 1>&2
    note_stage miri "cargo miri run, -Zmiri-many-seeds=0..16 -Zmiri-preemption-rate=0.05, fixed 3-thread program (cache hit, misses, failing build, shared scanner): no UB / data race / deadlock, results equal to sequential"
else
    if grep -q "Undefined Behavior\|data race\|deadlock\|^VIOLATION" target/c14/miri.err target/c14/miri.out; then
        cat target/c14/miri.err target/c14/miri.out > ../replays/C14/miri_report.txt
        echo "VIOLATION property=C14 replay=/verif/replays/C14/miri_report.txt"
        exit 1
    fi
    echo "   WARNING: Miri stage could not run; stage skipped (inconclusive)" 1>&2
    note_stage miri "skipped: could not run"
    tail -5 target/c14/miri.err 1>&2
fi
rm -rf target/tsan target/miri
exit 0
