#!/bin/bash
# tools/confirm_seed.sh <name>   e.g. C01a : re-verifies a sub-agent's seeded change in its scratch
# worktree /tmp/seed/<name> (patch applies to a pristine tree, existing suite passes with it, the
# demonstration fails with it and passes without it) and stores it under /verif/seeded/<name>/.
set -u
N="$1"; W=/tmp/seed/$N; S=$W/SEED
[ -f $S/patch.diff ] || { echo "no patch for $N"; exit 2; }
cd $W || exit 2
git checkout -q -- scnr/src 2>/dev/null
cp $S/seed_demo.rs scnr/tests/seed_demo.rs
git apply $S/patch.diff || { echo "$N: patch does not apply"; exit 1; }
export CARGO_NET_OFFLINE=true
mv scnr/tests/seed_demo.rs /tmp/seed/$N.demo.rs
suite=$(cargo test --workspace --no-fail-fast --offline -- --test-threads 1 2>&1 | grep -E "^test result" | awk '{p+=$4; f+=$6} END {print p" passed "f" failed"}')
mv /tmp/seed/$N.demo.rs scnr/tests/seed_demo.rs
with=$(cargo test --offline --test seed_demo 2>&1 | grep -E "^test result" | head -1)
git checkout -q -- scnr/src
without=$(cargo test --offline --test seed_demo 2>&1 | grep -E "^test result" | head -1)
echo "$N suite_with_change: $suite | demo_with: $with | demo_without: $without"
ok=1
echo "$suite" | grep -q " 0 failed" || ok=0
echo "$with" | grep -q "FAILED" || ok=0
echo "$without" | grep -q "test result: ok" || ok=0
if [ $ok = 1 ]; then
    mkdir -p /verif/seeded/$N && cp $S/patch.diff $S/seed_demo.rs /verif/seeded/$N/ && cp $S/notes.md /verif/seeded/$N/notes.md 2>/dev/null
    echo "$N CONFIRMED"
else
    echo "$N NOT CONFIRMED"
fi
