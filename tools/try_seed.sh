#!/bin/bash
# tools/try_seed.sh <patch.diff> <Cnn> [<Cnn> ...]   (VERIF_TIER / VERIF_SEED honoured)
# Applies a seeded change to /repo, runs the given checks (evidence redirected to a scratch
# directory so that committed evidence is not overwritten), and always restores /repo.
set -u
PATCH="$1"; shift
if [ -n "$(git -C /repo status --porcelain)" ]; then echo "/repo is not clean"; exit 2; fi
git -C /repo apply "$PATCH" || { echo "patch does not apply"; exit 2; }
trap 'git -C /repo checkout -- . ; git -C /repo clean -fdq scnr/src scnr/tests 2>/dev/null' EXIT
export VERIF_EVIDENCE_DIR=/verif/harness/target/seed_evidence
for id in "$@"; do
    out=$(/verif/check "$id" "${VERIF_TIER:-quick}" 2>/dev/null | grep -E "^(VIOLATION|KNOWN-FINDING|SUMMARY)" | tr '\n' ' ')
    echo "$id rc=$? $out"
done
