#!/usr/bin/env python3
"""Hand-written single-site mutants of scnr (DESIGN section 7). For each: apply to /repo, run the
repository's own suite (a mutant the suite kills is uninteresting), run the quick tier of the named
checks with evidence redirected, restore /repo. Writes /verif/seeded/mutants.json."""
import subprocess, json, sys, os
REPO = "/repo"
M = [
 ("tie_le", "scnr/src/internal/compiled_dfa.rs", "&& self.priority_of(terminal_id)\n                                                < self.priority_of(best_terminal_id))", "&& self.priority_of(terminal_id)\n                                                <= self.priority_of(best_terminal_id))", ["C01", "C05"]),
 ("extent_ge", "scnr/src/internal/compiled_dfa.rs", "extent > best_extent\n", "extent >= best_extent\n", ["C01", "C05"]),
 ("star_no_empty", "scnr/src/internal/nfa.rs", """    pub(crate) fn zero_or_more(&mut self) {
        // Create a new start state
        let start_state = self.new_state();
        // Connect the new start state to the start state of the current NFA
        self.add_epsilon_transition(start_state, self.start_state);
        // Connect the new start state to the end state of the current NFA
        self.add_epsilon_transition(start_state, self.end_state);
""", """    pub(crate) fn zero_or_more(&mut self) {
        // Create a new start state
        let start_state = self.new_state();
        // Connect the new start state to the start state of the current NFA
        self.add_epsilon_transition(start_state, self.start_state);
""", ["C01", "C02"]),
 ("bounded_off_by_one", "scnr/src/internal/nfa.rs", "for _ in *least..*most {", "for _ in *least + 1..*most {", ["C01", "C02"]),
 ("at_least_drops_star", "scnr/src/internal/nfa.rs", """                            let mut nfa_zero_or_more: Nfa = nfa2.clone();
                            nfa_zero_or_more.zero_or_more();
                            nfa.concat(nfa_zero_or_more);""", """                            let mut nfa_zero_or_more: Nfa = nfa2.clone();
                            nfa_zero_or_more.zero_or_one();
                            nfa.concat(nfa_zero_or_more);""", ["C01", "C02"]),
 ("eoi_lookahead_inverted", "scnr/src/internal/compiled_dfa.rs", "} else if lookahead.is_positive {", "} else if !lookahead.is_positive {", ["C04", "C05"]),
 ("neg_lookahead_len", "scnr/src/internal/compiled_lookahead.rs", "(!self.is_positive, 0)", "(!self.is_positive, 1)", ["C05", "C04"]),
 ("transition_search_stops", "scnr/src/internal/compiled_scanner_mode.rs", "std::cmp::Ordering::Greater => continue,", "std::cmp::Ordering::Greater => return None,", ["C06", "C11"]),
 ("no_reset_in_new", "scnr/src/internal/find_matches_impl.rs", "        me.scanner_impl.reset();\n", "", ["C06", "C12"]),
 ("peek_switches_mode", "scnr/src/internal/find_matches_impl.rs", "                .peek_from(self.haystack(), char_indices.clone());", "                .find_from(self.haystack(), char_indices.clone());", ["C11", "C06"]),
 ("range_upper_exclusive", "scnr/src/internal/match_function.rs", "MatchFn::new(move |ch| start <= ch && ch <= end)", "MatchFn::new(move |ch| start <= ch && ch < end)", ["C08", "C01"]),
 ("symdiff_as_union", "scnr/src/internal/match_function.rs", "MatchFn::new(move |ch| lhs.inner()(ch) != rhs.inner()(ch))", "MatchFn::new(move |ch| lhs.inner()(ch) || rhs.inner()(ch))", ["C08"]),
 ("ws_without_vt", "scnr/src/internal/match_function.rs", "ClassPerlKind::Space => MatchFn::new(|ch| ch.is_whitespace()),", "ClassPerlKind::Space => MatchFn::new(|ch| ch.is_whitespace() && ch != '\\x0B'),", ["C08"]),
 ("ascii_negation_dropped", "scnr/src/internal/match_function.rs", """                if negated {
                    MatchFn::new(move |ch| !match_function.inner()(ch))
                } else {
                    match_function
                }
            }
            ClassSetItem::Unicode""", """                if negated && false {
                    MatchFn::new(move |ch| !match_function.inner()(ch))
                } else {
                    match_function
                }
            }
            ClassSetItem::Unicode""", ["C08"]),
 ("column_without_plus_one", "scnr/src/internal/find_matches_impl.rs", "Err(i) => Position::new(i, offset.saturating_sub(self.line_offsets[i - 1]) + 1),", "Err(i) => Position::new(i, offset.saturating_sub(self.line_offsets[i - 1]).max(1)),", ["C09"]),
 ("set_offset_keeps_last_position", "scnr/src/internal/find_matches_impl.rs", "        self.last_position = 0;\n        self.offset = offset;", "        self.offset = offset;", ["C10", "C09"]),
 ("advance_line_offsets_relative", "scnr/src/internal/find_matches_impl.rs", "line_start_offsets.push(i + self.offset);", "line_start_offsets.push(i);", ["C09"]),
 ("flagged_group_accepted", "scnr/src/internal/nfa.rs", ".any(|f| matches!(f.kind, FlagsItemKind::Flag(_)))", ".any(|f| matches!(f.kind, FlagsItemKind::Flag(_)) && false)", ["C15"]),
 ("named_value_accepted", "scnr/src/internal/match_function.rs", "return Err(unsupported!(format!(\"Named value {}={}\", name, value)));", "let _ = (name, value);\n                MatchFn::new(|_| false)", ["C15"]),
 ("non_greedy_accepted", "scnr/src/internal/nfa.rs", "if !r.greedy {", "if !r.greedy && false {", ["C15"]),
 ("serde_token_type_renamed", "scnr/src/pattern.rs", "    token_type: usize,\n    #[cfg_attr(feature = \"serde\", serde(skip_serializing_if", "    #[cfg_attr(feature = \"serde\", serde(rename = \"terminal_id\"))]\n    token_type: usize,\n    #[cfg_attr(feature = \"serde\", serde(skip_serializing_if", ["C16"]),
 ("lookahead_not_skipped_when_none", "scnr/src/pattern.rs", "    #[cfg_attr(feature = \"serde\", serde(skip_serializing_if = \"Option::is_none\"))]\n", "", ["C16"]),
 ("dot_skips_self_loops", "scnr/src/internal/dot.rs", "        for (cc, next) in state.transitions.iter() {\n            // Label the edge", "        for (cc, next) in state.transitions.iter().filter(|(_, n)| n.as_usize() != id) {\n            // Label the edge", ["C18"]),
 ("dot_lookahead_polarity_label", "scnr/src/internal/dot.rs", "if lookahead.is_positive { \"Pos\" } else { \"Neg\" }", "if lookahead.is_positive { \"Pos\" } else { \"Pos\" }", ["C18"]),
 ("dot_io_error_unwrap", "scnr/src/internal/scanner_impl.rs", "let mut file = File::create(file_name)?;", "let mut file = File::create(file_name).unwrap();", ["C18"]),
 ("minimizer_start_not_first", "scnr/src/internal/minimizer.rs", """            if a.contains(&StateID::new(0)) {
                return std::cmp::Ordering::Less;
            }
            if b.contains(&StateID::new(0)) {
                return std::cmp::Ordering::Greater;
            }""", """            if a.contains(&StateID::new(0)) {
                return std::cmp::Ordering::Greater;
            }
            if b.contains(&StateID::new(0)) {
                return std::cmp::Ordering::Less;
            }""", ["C03", "C02"]),
 ("cache_hit_on_first_mode_only", "scnr/src/internal/scanner_cache.rs", "if let Some(scanner) = self.cache.get(modes) {", "if let Some(scanner) = self.cache.get(modes).or_else(|| self.cache.iter().find(|(k, _)| k.len() == modes.len() && k.first() == modes.first()).map(|(_, v)| v)) {", ["C13"]),
 ("registry_dedup_literals_by_char_only", "scnr/src/internal/comparable_ast.rs", "(Ast::Literal(l), Ast::Literal(r)) => l.c == r.c && l.kind == r.kind,", "(Ast::Literal(l), Ast::Literal(r)) => l.c == r.c,", ["C08", "C02"]),
]

def sh(cmd, **kw):
    return subprocess.run(cmd, shell=True, capture_output=True, text=True, **kw)

def main():
    only = sys.argv[1:]
    out = []
    prev = {}
    path = "/verif/seeded/mutants.json"
    if os.path.exists(path):
        prev = {e["name"]: e for e in json.load(open(path))}
    for name, f, old, new, checks in M:
        if only and name not in only:
            if name in prev: out.append(prev[name])
            continue
        if sh("git -C /repo status --porcelain").stdout.strip():
            print("/repo not clean"); sys.exit(2)
        p = os.path.join(REPO, f)
        s = open(p).read()
        if old not in s:
            print(name, "PATTERN NOT FOUND"); out.append({"name": name, "status": "pattern not found"}); continue
        open(p, "w").write(s.replace(old, new, 1))
        try:
            r = sh("cd /repo && cargo test --workspace --no-fail-fast --offline -- --test-threads 1 2>&1 | grep -E '^test result|^error(\\[|: could not compile)' ")
            lines = r.stdout.strip().splitlines()
            compiled = not any(l.startswith("error") for l in lines) and len(lines) >= 3
            suite_ok = compiled and all(" 0 failed" in l for l in lines if l.startswith("test result"))
            entry = {"name": name, "file": f, "checks": checks, "compiles": compiled, "existing_suite_passes": suite_ok, "results": {}}
            if suite_ok:
                for c in checks:
                    rr = sh(f"VERIF_EVIDENCE_DIR=/verif/harness/target/seed_evidence /verif/check {c} quick 2>/dev/null | grep -E '^(VIOLATION|SUMMARY)'")
                    viol = "VIOLATION" in rr.stdout
                    summ = [l for l in rr.stdout.splitlines() if l.startswith("SUMMARY")]
                    entry["results"][c] = {"caught": viol, "summary": summ[0] if summ else rr.stdout[-200:]}
            print(name, "suite_ok" if suite_ok else ("killed by existing tests" if compiled else "does not compile"), {c: v["caught"] for c, v in entry["results"].items()})
            out.append(entry)
        finally:
            sh("git -C /repo checkout -- .")
    json.dump(out, open(path, "w"), indent=1)

main()
