# tools/mk_seed_round.py : creates scratch worktrees /tmp/seed/<Cnn><round> and the briefs /tmp/seed/prompt_<id>.txt for a
# seeding round (base brief from seeded/PROMPTS.md + the GUIDE below). Edit R, WANT and GUIDE per round. Development tool.
import json, subprocess, os
R='n'
GUIDE = """ADDITIONAL GUIDANCE FOR THIS RUN: the defect must be invisible on FIRST USE and show only on a SECOND or LATER use of something: the second iterator created from the same Scanner (after the first was used, dropped, or is still alive), a Scanner that is a clone (or a clone of a clone) of another, a scanner obtained from a cache HIT (the same configuration built a second time in the process - the cached compilation is cloned, so a field that Clone or the cache path does not carry over correctly matters), the second call of the same method with the same arguments, the second scan of the same input, the second serialization of a value that was deserialized, the second export into the same folder, a re-used buffer or table that keeps entries of the first use. The first use must behave perfectly. Combine it with at least one further condition (a lookahead, a mode switch, a multi-byte character, a reset, a particular relation between the first and the second use) so that simply doing everything twice in the most ordinary way still works. Do NOT use: replacing a cache key by a hash or a text rendering, log-level dependence, truncating token types or counters to narrower integers, capping minimizer rounds, leaving scratch state vectors of the automaton simulation uncleared. Stay INSIDE the code this property is about. The change must look like ordinary maintenance with justifying comments. As always the existing tests must not catch it and the simplest use must keep working."""
base = open('/verif/seeded/PROMPTS.md').read().split('```')[1]
# base is the C10 round f example
props = [json.loads(l) for l in open('/verif/properties.jsonl')]
WANT={'C01','C04','C05','C06','C09','C10','C11','C12','C16','C18'}
c10 = [p for p in props if p['id']=='C10'][0]
for p in props:
    if p['id'] not in WANT: continue
    n = p['id']+R
    w = '/tmp/seed/'+n
    if not os.path.isdir(w):
        subprocess.run(['git','-C','/repo','worktree','add','-q','--detach',w,'HEAD'],check=True)
    t = base.replace('C10f', n)
    t = t.replace(c10['title'], p['title']).replace(c10['statement'], p['statement']).replace(c10['quantifier']['text'], p['quantifier']['text'])
    assert p['title'] in t and p['statement'] in t and p['quantifier']['text'] in t
    open('/tmp/seed/prompt_%s.txt'%n,'w').write(t.strip()+"\n\n"+GUIDE+"\n\nYou have at most 10 minutes: be decisive, do not over-explore.\n")
print('ok')
