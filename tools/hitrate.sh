#!/bin/bash
# tools/hitrate.sh <seed id> [<Cnn>]  : applies seeded/<id>/patch.diff to /repo, runs `vh <Cnn> hitrate`
# (all generated quick cases, no stop at the first failure) and restores /repo. Development tool.
set -u
ID="$1"; PROP="${2:-$(python3 -c "import json;print(json.load(open('/verif/seeded/$ID/meta.json'))['property'])")}"
if [ -n "$(git -C /repo status --porcelain)" ]; then echo "/repo is not clean"; exit 2; fi
trap 'git -C /repo checkout -- . ; git -C /repo clean -fdq scnr/src scnr/tests 2>/dev/null' EXIT
git -C /repo apply /verif/seeded/$ID/patch.diff || exit 2
cd /verif/harness && CARGO_NET_OFFLINE=true cargo build --release --offline -q -p vh 2>/dev/null || { echo "build failed"; exit 2; }
./target/release/vh $PROP hitrate ${VERIF_TIER:-quick} 2>/dev/null | cut -c1-500
