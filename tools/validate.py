#!/usr/bin/env python3-vt
"""Validates MANIFEST.json and every evidence file against the schemas (tooling venv python)."""
import json, sys, glob, jsonschema
ok = True
m = json.load(open('/verif/MANIFEST.json')); s = json.load(open('/root/.vp/MANIFEST.schema.json'))
jsonschema.validate(m, s); print("manifest valid:", len(m["checks"]), "checks")
es = json.load(open('/root/.vp/EVIDENCE.schema.json'))
for c in m["checks"]:
    f = c["evidence_file"]
    try:
        e = json.load(open(f)); jsonschema.validate(e, es)
        assert e["level"] == c["level_claimed"]["category"], (e["level"], c["level_claimed"]["category"])
        print("  ok", f, e["tier"], e["coverage"].get("evaluations"), e["coverage"].get("distinct_nontrivial"))
    except Exception as x:
        ok = False; print("  BAD", f, str(x)[:300])
sys.exit(0 if ok else 1)
